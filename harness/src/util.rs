//! Shared plumbing: mini block_on, scratch dirs, evidence files, known findings, replay files.

use std::collections::BTreeMap;
use std::future::Future;
use std::path::{Path, PathBuf};
use std::pin::Pin;
use std::sync::atomic::{AtomicU64, Ordering};
use std::sync::Arc;
use std::task::{Context, Poll, Wake, Waker};
use std::time::Instant;

use serde_json::{json, Value as J};

pub const VERIF_ROOT: &str = "/verif";

/// Where evidence and replay files go (default /verif; VERIF_OUT_DIR redirects side runs so they
/// do not clobber the registered evidence).
pub fn out_root() -> PathBuf {
	std::env::var("VERIF_OUT_DIR").map(PathBuf::from).unwrap_or_else(|_| PathBuf::from(VERIF_ROOT))
}

// ---------------------------------------------------------------------------
// block_on without a runtime: polls the future; a Pending that is not followed by a
// wake-up within `max_polls` re-polls is reported as "would block".
// ---------------------------------------------------------------------------

struct FlagWaker(std::sync::atomic::AtomicBool);
impl Wake for FlagWaker {
	fn wake(self: Arc<Self>) {
		self.0.store(true, Ordering::SeqCst);
	}
}

pub enum Polled<T> {
	Ready(T),
	WouldBlock,
}

/// Poll a future to completion on the calling thread without driving any runtime.
/// Returns `WouldBlock` if the future is pending and nobody woke it.
pub fn poll_now<F: Future>(fut: F) -> Polled<F::Output> {
	let mut fut = Box::pin(fut);
	let flag = Arc::new(FlagWaker(std::sync::atomic::AtomicBool::new(false)));
	let waker = Waker::from(Arc::clone(&flag));
	let mut cx = Context::from_waker(&waker);
	for _ in 0..64 {
		match Pin::as_mut(&mut fut).poll(&mut cx) {
			Poll::Ready(v) => return Polled::Ready(v),
			Poll::Pending => {
				if !flag.0.swap(false, Ordering::SeqCst) {
					return Polled::WouldBlock;
				}
			}
		}
	}
	Polled::WouldBlock
}

// ---------------------------------------------------------------------------
// Scratch directories (under /dev/shm, removed by the owner)
// ---------------------------------------------------------------------------

static DIR_CTR: AtomicU64 = AtomicU64::new(0);

pub fn scratch_root() -> PathBuf {
	let base = if Path::new("/dev/shm").is_dir() {
		PathBuf::from("/dev/shm")
	} else {
		std::env::temp_dir()
	};
	base.join(format!("verif-{}", std::process::id()))
}

pub fn fresh_dir(tag: &str) -> PathBuf {
	let n = DIR_CTR.fetch_add(1, Ordering::SeqCst);
	let p = scratch_root().join(format!("{tag}-{n}"));
	let _ = std::fs::remove_dir_all(&p);
	std::fs::create_dir_all(&p).expect("create scratch dir");
	p
}

pub fn cleanup_scratch() {
	let _ = std::fs::remove_dir_all(scratch_root());
}

pub fn copy_dir(src: &Path, dst: &Path) -> std::io::Result<()> {
	std::fs::create_dir_all(dst)?;
	for e in std::fs::read_dir(src)? {
		let e = e?;
		let ft = e.file_type()?;
		let to = dst.join(e.file_name());
		if ft.is_dir() {
			copy_dir(&e.path(), &to)?;
		} else if ft.is_file() {
			std::fs::copy(e.path(), &to)?;
		}
	}
	Ok(())
}

/// (relative path -> bytes) of every file under `root`, sorted.
pub fn dir_snapshot(root: &Path) -> BTreeMap<String, Vec<u8>> {
	fn walk(root: &Path, cur: &Path, out: &mut BTreeMap<String, Vec<u8>>) {
		if let Ok(rd) = std::fs::read_dir(cur) {
			for e in rd.flatten() {
				let p = e.path();
				if p.is_dir() {
					walk(root, &p, out);
				} else if let Ok(b) = std::fs::read(&p) {
					out.insert(p.strip_prefix(root).unwrap().to_string_lossy().to_string(), b);
				}
			}
		}
	}
	let mut out = BTreeMap::new();
	walk(root, root, &mut out);
	out
}

// ---------------------------------------------------------------------------
// Tier / seed / caps
// ---------------------------------------------------------------------------

#[derive(Clone, Copy, PartialEq, Eq, Debug)]
pub enum Tier {
	Quick,
	Thorough,
}

impl Tier {
	pub fn as_str(&self) -> &'static str {
		match self {
			Tier::Quick => "quick",
			Tier::Thorough => "thorough",
		}
	}
}

pub fn seed() -> i64 {
	std::env::var("VERIF_SEED").ok().and_then(|s| s.parse().ok()).unwrap_or(0)
}

pub struct Budget {
	start: Instant,
	cap_s: f64,
}

impl Budget {
	pub fn new(cap_s: f64) -> Self {
		let cap_s = std::env::var("VERIF_CAP_S").ok().and_then(|s| s.parse().ok()).unwrap_or(cap_s);
		Budget {
			start: Instant::now(),
			cap_s,
		}
	}
	pub fn elapsed(&self) -> f64 {
		self.start.elapsed().as_secs_f64()
	}
	pub fn exhausted(&self) -> bool {
		self.elapsed() > self.cap_s
	}
	pub fn cap(&self) -> f64 {
		self.cap_s
	}
}

// ---------------------------------------------------------------------------
// Known findings
// ---------------------------------------------------------------------------

#[derive(Clone, Debug)]
pub struct KnownFinding {
	pub property: String,
	pub class: String,
	pub what: String,
}

pub fn load_known_findings(property: &str) -> Vec<KnownFinding> {
	let p = Path::new(VERIF_ROOT).join("known_findings.json");
	let Ok(txt) = std::fs::read_to_string(&p) else {
		return vec![];
	};
	let j: J = match serde_json::from_str(&txt) {
		Ok(j) => j,
		Err(e) => {
			eprintln!("machinery: known_findings.json does not parse: {e}");
			std::process::exit(2);
		}
	};
	let mut out = vec![];
	if let Some(arr) = j.get("findings").and_then(|a| a.as_array()) {
		for f in arr {
			let props: Vec<String> = match f.get("property") {
				Some(J::String(s)) => vec![s.clone()],
				Some(J::Array(a)) => a.iter().filter_map(|x| x.as_str().map(String::from)).collect(),
				_ => vec![],
			};
			if props.iter().any(|p| p == property) {
				out.push(KnownFinding {
					property: property.to_string(),
					class: f.get("class").and_then(|x| x.as_str()).unwrap_or("").to_string(),
					what: f.get("what").and_then(|x| x.as_str()).unwrap_or("").to_string(),
				});
			}
		}
	}
	out
}

// ---------------------------------------------------------------------------
// Violations, verdicts, evidence
// ---------------------------------------------------------------------------

#[derive(Clone, Debug)]
pub struct Violation {
	/// diagnosed class (matched against known_findings.json)
	pub class: String,
	/// short human text
	pub what: String,
	/// self-contained replay recipe
	pub replay: J,
}

pub struct Report {
	pub property: String,
	pub tier: Tier,
	pub level: &'static str,
	pub started: Instant,
	pub coverage: serde_json::Map<String, J>,
	pub assumptions: Vec<String>,
	pub violations: Vec<Violation>,
}

impl Report {
	pub fn new(property: &str, tier: Tier, level: &'static str) -> Self {
		Report {
			property: property.to_string(),
			tier,
			level,
			started: Instant::now(),
			coverage: serde_json::Map::new(),
			assumptions: vec![],
			violations: vec![],
		}
	}

	pub fn set(&mut self, k: &str, v: J) {
		self.coverage.insert(k.to_string(), v);
	}

	pub fn add_u(&mut self, k: &str, n: u64) {
		let cur = self.coverage.get(k).and_then(|v| v.as_u64()).unwrap_or(0);
		self.coverage.insert(k.to_string(), json!(cur + n));
	}

	pub fn assume(&mut self, s: &str) {
		self.assumptions.push(s.to_string());
	}

	/// Write evidence, print KNOWN-FINDING / VIOLATION lines, return the exit code.
	pub fn finish(mut self) -> i32 {
		let known = load_known_findings(&self.property);
		let mut hits: BTreeMap<String, u64> = BTreeMap::new();
		let mut unknown: Vec<Violation> = vec![];
		for v in self.violations.drain(..) {
			if known.iter().any(|k| k.class == v.class) {
				*hits.entry(v.class.clone()).or_default() += 1;
			} else {
				unknown.push(v);
			}
		}
		for k in &known {
			if let Some(n) = hits.get(&k.class) {
				println!(
					"KNOWN-FINDING: property={} class={} hits={} {}",
					self.property, k.class, n, k.what
				);
			}
		}
		let mut exit = 0;
		// One VIOLATION line per distinct unknown class (first = simplest counterexample).
		let mut seen = std::collections::BTreeSet::new();
		let rdir = out_root().join("replays").join("last");
		// counterexamples of earlier runs of this property are stale now
		if let Ok(rd) = std::fs::read_dir(&rdir) {
			let prefix = format!("{}-", self.property);
			for e in rd.flatten() {
				if e.file_name().to_string_lossy().starts_with(&prefix) {
					let _ = std::fs::remove_file(e.path());
				}
			}
		}
		for v in &unknown {
			if !seen.insert(v.class.clone()) {
				continue;
			}
			let _ = std::fs::create_dir_all(&rdir);
			let path = rdir.join(format!("{}-{}.json", self.property, sanitize(&v.class)));
			let body = json!({"property": self.property, "class": v.class, "what": v.what, "replay": v.replay});
			let _ = std::fs::write(&path, serde_json::to_string_pretty(&body).unwrap());
			println!("VIOLATION property={} replay={}", self.property, path.display());
			println!("  class={} {}", v.class, v.what);
			exit = 1;
		}
		self.coverage.insert(
			"known_finding_hits".into(),
			J::Object(hits.iter().map(|(k, v)| (k.clone(), json!(v))).collect()),
		);
		let ev = json!({
			"property_id": self.property,
			"tier": self.tier.as_str(),
			"seed": seed(),
			"level": self.level,
			"coverage": J::Object(self.coverage.clone()),
			"assumptions": self.assumptions,
			"wall_s": self.started.elapsed().as_secs_f64(),
			"violations": unknown.len(),
		});
		let edir = out_root().join("evidence");
		let _ = std::fs::create_dir_all(&edir);
		let epath = edir.join(format!("{}.json", self.property));
		if let Err(e) = std::fs::write(&epath, serde_json::to_string_pretty(&ev).unwrap()) {
			eprintln!("machinery: cannot write evidence {}: {e}", epath.display());
			return 2;
		}
		println!(
			"{} {}: evaluations={} violations={} known_hits={} wall={:.1}s",
			self.property,
			self.tier.as_str(),
			self.coverage.get("evaluations").and_then(|v| v.as_u64()).unwrap_or(0),
			unknown.len(),
			hits.values().sum::<u64>(),
			self.started.elapsed().as_secs_f64()
		);
		exit
	}
}

pub fn sanitize(s: &str) -> String {
	s.chars().map(|c| if c.is_ascii_alphanumeric() || c == '-' || c == '_' { c } else { '_' }).collect()
}

pub fn hex(b: &[u8]) -> String {
	// printable ASCII kept, everything else \xNN
	let mut s = String::new();
	for &c in b {
		if (0x20..0x7f).contains(&c) && c != b'\\' {
			s.push(c as char);
		} else {
			s.push_str(&format!("\\x{c:02x}"));
		}
	}
	s
}

pub fn unhex(s: &str) -> Vec<u8> {
	let b = s.as_bytes();
	let mut out = vec![];
	let mut i = 0;
	while i < b.len() {
		if b[i] == b'\\' && i + 3 < b.len() + 0 && b[i + 1] == b'x' {
			let h = std::str::from_utf8(&b[i + 2..i + 4]).unwrap();
			out.push(u8::from_str_radix(h, 16).unwrap());
			i += 4;
		} else {
			out.push(b[i]);
			i += 1;
		}
	}
	out
}

pub fn fnv64(data: &[u8]) -> u64 {
	let mut h: u64 = 0xcbf29ce484222325;
	for &b in data {
		h ^= b as u64;
		h = h.wrapping_mul(0x100000001b3);
	}
	h
}

/// Run `f` catching panics; the panic message (with location if available) is returned as Err.
pub fn guarded<T>(f: impl FnOnce() -> T) -> Result<T, String> {
	match std::panic::catch_unwind(std::panic::AssertUnwindSafe(f)) {
		Ok(v) => Ok(v),
		Err(e) => {
			let msg = if let Some(s) = e.downcast_ref::<&str>() {
				s.to_string()
			} else if let Some(s) = e.downcast_ref::<String>() {
				s.clone()
			} else {
				"panic".to_string()
			};
			let loc = LAST_PANIC_LOC.with(|l| l.borrow().clone());
			Err(format!("panic: {msg} at {loc}"))
		}
	}
}

thread_local! {
	pub static LAST_PANIC_LOC: std::cell::RefCell<String> = const { std::cell::RefCell::new(String::new()) };
}

pub fn install_quiet_panic_hook() {
	std::panic::set_hook(Box::new(|info| {
		let loc = info.location().map(|l| format!("{}:{}", l.file(), l.line())).unwrap_or_default();
		LAST_PANIC_LOC.with(|l| *l.borrow_mut() = loc);
	}));
}
