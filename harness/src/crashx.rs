//! crashx — crash-image and fault enumeration over traces recorded by the LD_PRELOAD shim.
//!
//! A workload runs in a worker subprocess with `vshim.so` preloaded; every mutating libc call
//! under the database directory is recorded. The parent replays the trace into an in-memory file
//! system model and materialises, for every crash point, the process-crash image and a bounded
//! family of power-loss images, each of which is then opened with the real store.

use std::collections::{BTreeMap, BTreeSet, HashMap};
use std::path::{Path, PathBuf};

use serde_json::{json, Value as J};

use crate::model::Write;
use crate::world::{Op, OptSet, Phys};

pub const SHIM: &str = "/verif/target/vshim.so";

#[derive(Clone, Debug)]
pub enum Ev {
	Create(String, u64),
	OpenExist(String, u64),
	Write(u64, u64, Vec<u8>),
	Trunc(u64, u64),
	Rename(String, String),
	Unlink(String),
	Mkdir(String),
	Rmdir(String),
	Fsync(u64),
	FsyncDir(String),
	Mark(String),
	Link(String, String),
	Fault(u64, u64),
}

impl Ev {
	pub fn short(&self) -> String {
		match self {
			Ev::Create(p, o) => format!("create {p} #{o}"),
			Ev::OpenExist(p, o) => format!("openexist {p} #{o}"),
			Ev::Write(o, off, d) => format!("write #{o} @{off} +{}", d.len()),
			Ev::Trunc(o, l) => format!("trunc #{o} {l}"),
			Ev::Rename(a, b) => format!("rename {a} -> {b}"),
			Ev::Unlink(p) => format!("unlink {p}"),
			Ev::Mkdir(p) => format!("mkdir {p}"),
			Ev::Rmdir(p) => format!("rmdir {p}"),
			Ev::Fsync(o) => format!("fsync #{o}"),
			Ev::FsyncDir(p) => format!("fsyncdir {p}"),
			Ev::Mark(l) => format!("MARK {l}"),
			Ev::Link(a, b) => format!("link {a} {b}"),
			Ev::Fault(n, c) => format!("FAULT n={n} class={c}"),
		}
	}
	pub fn is_fs(&self) -> bool {
		!matches!(self, Ev::Mark(_) | Ev::Fault(..))
	}
}

pub fn parse_trace(bytes: &[u8], root: &str) -> Result<Vec<Ev>, String> {
	let mut i = 0usize;
	let mut out = vec![];
	let u64_at = |i: &mut usize| -> Result<u64, String> {
		if *i + 8 > bytes.len() {
			return Err("truncated trace (u64)".into());
		}
		let v = u64::from_le_bytes(bytes[*i..*i + 8].try_into().unwrap());
		*i += 8;
		Ok(v)
	};
	let bytes_at = |i: &mut usize| -> Result<Vec<u8>, String> {
		if *i + 4 > bytes.len() {
			return Err("truncated trace (len)".into());
		}
		let l = u32::from_le_bytes(bytes[*i..*i + 4].try_into().unwrap()) as usize;
		*i += 4;
		if *i + l > bytes.len() {
			return Err("truncated trace (bytes)".into());
		}
		let v = bytes[*i..*i + l].to_vec();
		*i += l;
		Ok(v)
	};
	let rel = |p: Vec<u8>| -> String {
		let s = String::from_utf8_lossy(&p).to_string();
		let s = s.strip_prefix(root).unwrap_or(&s).trim_start_matches('/').to_string();
		s
	};
	while i < bytes.len() {
		let op = bytes[i];
		i += 1;
		let ev = match op {
			1 => {
				let p = rel(bytes_at(&mut i)?);
				Ev::Create(p, u64_at(&mut i)?)
			}
			2 => {
				let p = rel(bytes_at(&mut i)?);
				Ev::OpenExist(p, u64_at(&mut i)?)
			}
			3 => {
				let o = u64_at(&mut i)?;
				let off = u64_at(&mut i)?;
				Ev::Write(o, off, bytes_at(&mut i)?)
			}
			4 => {
				let o = u64_at(&mut i)?;
				Ev::Trunc(o, u64_at(&mut i)?)
			}
			5 => {
				let a = rel(bytes_at(&mut i)?);
				Ev::Rename(a, rel(bytes_at(&mut i)?))
			}
			6 => Ev::Unlink(rel(bytes_at(&mut i)?)),
			7 => Ev::Mkdir(rel(bytes_at(&mut i)?)),
			8 => Ev::Rmdir(rel(bytes_at(&mut i)?)),
			9 => Ev::Fsync(u64_at(&mut i)?),
			10 => Ev::FsyncDir(rel(bytes_at(&mut i)?)),
			11 => Ev::Mark(String::from_utf8_lossy(&bytes_at(&mut i)?).to_string()),
			12 => {
				let a = rel(bytes_at(&mut i)?);
				Ev::Link(a, rel(bytes_at(&mut i)?))
			}
			13 => {
				let n = u64_at(&mut i)?;
				Ev::Fault(n, u64_at(&mut i)?)
			}
			x => return Err(format!("unknown trace op {x} at {i}")),
		};
		out.push(ev);
	}
	Ok(out)
}

// ---------------------------------------------------------------------------
// File-system model
// ---------------------------------------------------------------------------

#[derive(Clone, Debug, Default, PartialEq, Eq)]
pub struct Fs {
	pub dirs: BTreeSet<String>,
	pub names: BTreeMap<String, u64>,
	pub data: BTreeMap<u64, Vec<u8>>,
}

impl Fs {
	/// Load an existing directory (objects get ids from 1<<40 upward, bound by path).
	pub fn from_dir(root: &Path) -> Fs {
		let mut fs = Fs::default();
		let mut next = 1u64 << 40;
		fn walk(root: &Path, cur: &Path, fs: &mut Fs, next: &mut u64) {
			if let Ok(rd) = std::fs::read_dir(cur) {
				let mut ents: Vec<_> = rd.flatten().collect();
				ents.sort_by_key(|e| e.file_name());
				for e in ents {
					let p = e.path();
					let r = p.strip_prefix(root).unwrap().to_string_lossy().to_string();
					if p.is_dir() {
						fs.dirs.insert(r);
						walk(root, &p, fs, next);
					} else if let Ok(b) = std::fs::read(&p) {
						fs.names.insert(r, *next);
						fs.data.insert(*next, b);
						*next += 1;
					}
				}
			}
		}
		walk(root, root, &mut fs, &mut next);
		fs
	}

	fn write_into(buf: &mut Vec<u8>, off: u64, d: &[u8]) {
		let off = off as usize;
		if buf.len() < off + d.len() {
			buf.resize(off + d.len(), 0);
		}
		buf[off..off + d.len()].copy_from_slice(d);
	}

	/// Apply a namespace event (data events are handled by the caller's variant logic).
	pub fn apply_ns(&mut self, ev: &Ev) {
		match ev {
			Ev::Create(p, o) => {
				self.names.insert(p.clone(), *o);
				self.data.entry(*o).or_default();
			}
			Ev::OpenExist(p, o) => {
				// bind the shim's object id to the pre-existing file's content
				if let Some(old) = self.names.get(p).copied() {
					if old != *o {
						let d = self.data.remove(&old).unwrap_or_default();
						self.data.insert(*o, d);
						for v in self.names.values_mut() {
							if *v == old {
								*v = *o;
							}
						}
					}
				} else {
					self.names.insert(p.clone(), *o);
					self.data.entry(*o).or_default();
				}
			}
			Ev::Rename(a, b) => {
				if self.dirs.contains(a) {
					let moved: Vec<String> = self.dirs.iter().filter(|d| *d == a || d.starts_with(&format!("{a}/"))).cloned().collect();
					for d in moved {
						self.dirs.remove(&d);
						self.dirs.insert(format!("{b}{}", &d[a.len()..]));
					}
					let files: Vec<String> = self.names.keys().filter(|f| f.starts_with(&format!("{a}/"))).cloned().collect();
					for f in files {
						let o = self.names.remove(&f).unwrap();
						self.names.insert(format!("{b}{}", &f[a.len()..]), o);
					}
				} else if let Some(o) = self.names.remove(a) {
					self.names.insert(b.clone(), o);
				}
			}
			Ev::Unlink(p) => {
				self.names.remove(p);
			}
			Ev::Mkdir(p) => {
				self.dirs.insert(p.clone());
			}
			Ev::Rmdir(p) => {
				self.dirs.remove(p);
			}
			Ev::Link(a, b) => {
				if let Some(o) = self.names.get(a).copied() {
					self.names.insert(b.clone(), o);
				}
			}
			_ => {}
		}
	}

	pub fn apply_data(&mut self, ev: &Ev) {
		match ev {
			Ev::Write(o, off, d) => Self::write_into(self.data.entry(*o).or_default(), *off, d),
			Ev::Trunc(o, l) => self.data.entry(*o).or_default().resize(*l as usize, 0),
			_ => {}
		}
	}

	pub fn apply(&mut self, ev: &Ev) {
		self.apply_ns(ev);
		self.apply_data(ev);
	}

	/// Visible content: path -> bytes (unreferenced objects dropped).
	pub fn view(&self) -> BTreeMap<String, Vec<u8>> {
		self.names.iter().map(|(p, o)| (p.clone(), self.data.get(o).cloned().unwrap_or_default())).collect()
	}

	pub fn hash(&self) -> u64 {
		let mut h: u64 = 0xcbf29ce484222325;
		let mut feed = |b: &[u8]| {
			for &x in b {
				h ^= x as u64;
				h = h.wrapping_mul(0x100000001b3);
			}
		};
		for d in &self.dirs {
			feed(b"D");
			feed(d.as_bytes());
			feed(&[0]);
		}
		for (p, o) in &self.names {
			// temp names are irrelevant to recovery semantics
			feed(b"F");
			feed(canon_name(p).as_bytes());
			feed(&[0]);
			let d = self.data.get(o).map(|v| v.as_slice()).unwrap_or(&[]);
			feed(&(d.len() as u64).to_le_bytes());
			feed(d);
		}
		h
	}

	pub fn materialize(&self, dst: &Path) -> std::io::Result<()> {
		let _ = std::fs::remove_dir_all(dst);
		std::fs::create_dir_all(dst)?;
		for d in &self.dirs {
			std::fs::create_dir_all(dst.join(d))?;
		}
		for (p, o) in &self.names {
			let full = dst.join(p);
			if let Some(par) = full.parent() {
				std::fs::create_dir_all(par)?;
			}
			std::fs::write(full, self.data.get(o).map(|v| v.as_slice()).unwrap_or(&[]))?;
		}
		Ok(())
	}
}

fn canon_name(p: &str) -> String {
	if let Some(i) = p.find(".tmp_") {
		format!("{}.tmp_X", &p[..i])
	} else {
		p.to_string()
	}
}

// ---------------------------------------------------------------------------
// Crash images
// ---------------------------------------------------------------------------

#[derive(Clone, Debug)]
pub struct ImageSpec {
	/// crash after this many events of the trace
	pub point: usize,
	/// "process" | "power-v0" | "power-v1" | "power-v2"
	pub kind: String,
	/// for v2: (object id, number of pending ops kept, bytes kept of the last one, others_v1)
	pub v2: Option<(u64, usize, usize, bool)>,
}

impl ImageSpec {
	pub fn short(&self) -> String {
		match &self.v2 {
			None => format!("{}@{}", self.kind, self.point),
			Some((o, j, t, ov)) => format!("{}@{} obj#{o} keep={j} tear={t} others={}", self.kind, self.point, if *ov { "kept" } else { "dropped" }),
		}
	}
	pub fn to_json(&self) -> J {
		json!({"point": self.point, "kind": self.kind, "v2": self.v2.map(|(a, b, c, d)| json!([a, b, c, d]))})
	}
	pub fn from_json(j: &J) -> ImageSpec {
		ImageSpec {
			point: j["point"].as_u64().unwrap() as usize,
			kind: j["kind"].as_str().unwrap().to_string(),
			v2: j["v2"].as_array().map(|a| (a[0].as_u64().unwrap(), a[1].as_u64().unwrap() as usize, a[2].as_u64().unwrap() as usize, a[3].as_bool().unwrap())),
		}
	}
	pub fn is_power(&self) -> bool {
		self.kind != "process"
	}
}

/// State while walking a trace: namespace fully applied, data split into synced + pending.
struct Walk {
	fs_synced: Fs,
	pending: BTreeMap<u64, Vec<Ev>>,
}

fn walk_to(init: &Fs, trace: &[Ev], point: usize) -> Walk {
	let mut w = Walk {
		fs_synced: init.clone(),
		pending: BTreeMap::new(),
	};
	for ev in &trace[..point] {
		match ev {
			Ev::Write(o, ..) | Ev::Trunc(o, _) => w.pending.entry(*o).or_default().push(ev.clone()),
			Ev::Fsync(o) => {
				if let Some(p) = w.pending.remove(o) {
					for e in p {
						w.fs_synced.apply_data(&e);
					}
				}
			}
			e => w.fs_synced.apply_ns(e),
		}
	}
	w
}

/// Build the image described by `spec`.
pub fn build_image(init: &Fs, trace: &[Ev], spec: &ImageSpec) -> Fs {
	let w = walk_to(init, trace, spec.point);
	let mut fs = w.fs_synced;
	match spec.kind.as_str() {
		"process" | "power-v1" => {
			for p in w.pending.values() {
				for e in p {
					fs.apply_data(e);
				}
			}
		}
		"power-v0" => {}
		_ => {
			let (obj, keep, tear, others) = spec.v2.unwrap();
			for (o, p) in &w.pending {
				if *o == obj {
					for (i, e) in p.iter().enumerate() {
						if i + 1 < keep {
							fs.apply_data(e);
						} else if i + 1 == keep {
							match e {
								Ev::Write(o, off, d) => {
									let t = tear.min(d.len());
									fs.apply_data(&Ev::Write(*o, *off, d[..t].to_vec()));
								}
								e => fs.apply_data(e),
							}
						}
					}
				} else if others {
					for e in p {
						fs.apply_data(e);
					}
				}
			}
		}
	}
	fs
}

/// All image specs of a trace (crash points = after every file-system event, and at 0).
pub fn enumerate_specs(init: &Fs, trace: &[Ev], power: bool, v2: bool) -> Vec<ImageSpec> {
	let mut specs = vec![];
	let mut points: Vec<usize> = vec![0];
	for (i, e) in trace.iter().enumerate() {
		if e.is_fs() {
			points.push(i + 1);
		}
		// the instant right after an acknowledgement (a commit or a synced flush returned) is a crash
		// point of its own even when no file-system call separates it from the next one: the files
		// are those of the previous point, but more is owed to the caller
		if let Ev::Mark(l) = e {
			if (l.starts_with("ack") || l.starts_with("synced")) && points.last() != Some(&(i + 1)) {
				points.push(i + 1);
			}
		}
	}
	for &pt in &points {
		specs.push(ImageSpec {
			point: pt,
			kind: "process".into(),
			v2: None,
		});
		if !power {
			continue;
		}
		let w = walk_to(init, trace, pt);
		if w.pending.is_empty() {
			continue; // identical to the process image
		}
		specs.push(ImageSpec {
			point: pt,
			kind: "power-v0".into(),
			v2: None,
		});
		if !v2 {
			continue;
		}
		for (o, p) in &w.pending {
			for keep in 1..=p.len() {
				let len = match &p[keep - 1] {
					Ev::Write(_, _, d) => d.len(),
					_ => 0,
				};
				let mut tears: Vec<usize> = vec![len];
				if len > 1 {
					tears.extend([1, len / 2, len - 1]);
				}
				tears.sort();
				tears.dedup();
				for t in tears {
					if keep == p.len() && t == len && w.pending.len() == 1 {
						continue; // = process image
					}
					for others in [false, true] {
						if w.pending.len() == 1 && others {
							continue;
						}
						specs.push(ImageSpec {
							point: pt,
							kind: "power-v2".into(),
							v2: Some((*o, keep, t, others)),
						});
					}
				}
			}
		}
	}
	specs
}

/// Marks seen before `point`: (labels in order)
pub fn marks_before(trace: &[Ev], point: usize) -> Vec<String> {
	trace[..point].iter().filter_map(|e| if let Ev::Mark(l) = e { Some(l.clone()) } else { None }).collect()
}

// ---------------------------------------------------------------------------
// Workloads executed in the traced worker
// ---------------------------------------------------------------------------

#[derive(Clone, Debug)]
pub enum Wop {
	/// committed transaction; immediate durability?
	W(Vec<Write>, bool),
	/// flush_wal(true)
	Sync,
	P(Phys),
}

impl Wop {
	pub fn short(&self) -> String {
		match self {
			Wop::W(ws, imm) => format!("W{}[{}]", if *imm { "!" } else { "" }, ws.iter().map(|w| w.short()).collect::<Vec<_>>().join(";")),
			Wop::Sync => "S".into(),
			Wop::P(p) => p.as_str().into(),
		}
	}
	pub fn to_json(&self) -> J {
		match self {
			Wop::W(ws, imm) => json!({"op": "W", "imm": imm, "writes": ws.iter().map(|w| w.to_json()).collect::<Vec<_>>()}),
			Wop::Sync => json!({"op": "S"}),
			Wop::P(p) => json!({"op": p.as_str()}),
		}
	}
	pub fn from_json(j: &J) -> Wop {
		match j["op"].as_str().unwrap() {
			"W" => Wop::W(j["writes"].as_array().unwrap().iter().map(Write::from_json).collect(), j["imm"].as_bool().unwrap_or(false)),
			"S" => Wop::Sync,
			p => Wop::P(Phys::parse(p).expect("phys op")),
		}
	}
}

pub fn wops_short(ops: &[Wop]) -> String {
	ops.iter().map(|o| o.short()).collect::<Vec<_>>().join(" ")
}

#[derive(Clone, Debug)]
pub struct Workload {
	pub opt: OptSet,
	pub ops: Vec<Wop>,
	/// forced skiplist tower height (0 = random) — determines when the arena fills up
	pub forced_height: u32,
}

impl Workload {
	pub fn to_json(&self) -> J {
		json!({"options": self.opt.to_json(), "ops": self.ops.iter().map(|o| o.to_json()).collect::<Vec<_>>(), "forced_height": self.forced_height, "ops_short": wops_short(&self.ops)})
	}
	pub fn from_json(j: &J) -> Workload {
		Workload {
			opt: OptSet::from_json(&j["options"]),
			ops: j["ops"].as_array().unwrap().iter().map(Wop::from_json).collect(),
			forced_height: j["forced_height"].as_u64().unwrap_or(1) as u32,
		}
	}
}

/// What a traced run produced.
pub struct Traced {
	pub init: Fs,
	pub trace: Vec<Ev>,
	pub final_dir: PathBuf,
	pub worker_out: J,
	pub work: PathBuf,
}

impl Drop for Traced {
	fn drop(&mut self) {
		let _ = std::fs::remove_dir_all(&self.work);
	}
}

/// Run `wl` in a worker with the shim preloaded. `init_image`: directory content to start from.
pub fn run_traced(wl: &Workload, init_image: Option<&Fs>, fault: Option<&J>) -> Result<Traced, String> {
	run_traced_ext(wl, init_image, fault, false)
}

pub fn run_traced_ext(wl: &Workload, init_image: Option<&Fs>, fault: Option<&J>, probe_each: bool) -> Result<Traced, String> {
	let work = crate::util::fresh_dir("trace");
	let root = work.join("db");
	std::fs::create_dir_all(&root).map_err(|e| format!("{e}"))?;
	let init = match init_image {
		Some(fs) => {
			fs.materialize(&root).map_err(|e| format!("{e}"))?;
			Fs::from_dir(&root)
		}
		None => Fs::default(),
	};
	let spec = work.join("spec.json");
	let mut sj = wl.to_json();
	sj["root"] = json!(root.to_string_lossy());
	if let Some(f) = fault {
		sj["fault"] = f.clone();
	}
	sj["probe_after_each"] = json!(probe_each);
	std::fs::write(&spec, serde_json::to_string(&sj).unwrap()).map_err(|e| format!("{e}"))?;
	let trace_file = work.join("trace.bin");
	let exe = std::env::current_exe().map_err(|e| format!("{e}"))?;
	let mut child = std::process::Command::new(exe)
		.arg("worker")
		.arg("trace")
		.arg(&spec)
		.env("LD_PRELOAD", SHIM)
		.env("VSHIM_ROOT", &root)
		.env("VSHIM_OUT", &trace_file)
		.env("RAYON_NUM_THREADS", "1")
		.stdout(std::process::Stdio::piped())
		.stderr(std::process::Stdio::piped())
		.spawn()
		.map_err(|e| format!("spawn worker: {e}"))?;
	// a worker that does not finish is reported as a hang (the caller decides what that means)
	let t0 = std::time::Instant::now();
	loop {
		match child.try_wait() {
			Ok(Some(_)) => break,
			Ok(None) => {
				if t0.elapsed().as_secs() > 60 {
					let _ = child.kill();
					let _ = child.wait();
					let _ = std::fs::remove_dir_all(&work);
					return Err("worker hang: no exit within 60 s".into());
				}
				std::thread::sleep(std::time::Duration::from_millis(2));
			}
			Err(e) => return Err(format!("wait worker: {e}")),
		}
	}
	let out = child.wait_with_output().map_err(|e| format!("worker output: {e}"))?;
	let stdout = String::from_utf8_lossy(&out.stdout).to_string();
	let worker_out: J = stdout
		.lines()
		.rev()
		.find_map(|l| serde_json::from_str(l).ok())
		.ok_or_else(|| format!("worker produced no result (status {:?}): stdout={} stderr={}", out.status, stdout, String::from_utf8_lossy(&out.stderr)))?;
	if !out.status.success() {
		return Err(format!("worker failed: {:?} {}", out.status, String::from_utf8_lossy(&out.stderr)));
	}
	let bytes = std::fs::read(&trace_file).map_err(|e| format!("read trace: {e}"))?;
	let trace = parse_trace(&bytes, &root.to_string_lossy())?;
	// tracer self-check: replaying the complete trace must reproduce the real directory
	let mut fs = init.clone();
	for e in &trace {
		fs.apply(e);
	}
	let real = crate::util::dir_snapshot(&root);
	let modelled = fs.view();
	if real != modelled {
		let mut diff = vec![];
		for (p, b) in &real {
			match modelled.get(p) {
				None => diff.push(format!("{p}: missing in model ({} bytes real)", b.len())),
				Some(m) if m != b => diff.push(format!("{p}: model {} bytes, real {} bytes", m.len(), b.len())),
				_ => {}
			}
		}
		for p in modelled.keys() {
			if !real.contains_key(p) {
				diff.push(format!("{p}: only in model"));
			}
		}
		return Err(format!("tracer self-check failed: {}", diff.join("; ")));
	}
	Ok(Traced {
		init,
		trace,
		final_dir: root,
		worker_out,
		work,
	})
}

// ---------------------------------------------------------------------------
// Worker side
// ---------------------------------------------------------------------------

type MarkFn = unsafe extern "C" fn(*const std::os::raw::c_char);
type VoidFn = unsafe extern "C" fn();
type FaultFn = unsafe extern "C" fn(std::os::raw::c_long, i32, i32, i32, i32);

fn sym(name: &str) -> *mut std::os::raw::c_void {
	let c = std::ffi::CString::new(name).unwrap();
	unsafe { libc::dlsym(libc::RTLD_DEFAULT, c.as_ptr()) }
}

pub fn shim_mark(label: &str) {
	let p = sym("vshim_mark");
	if !p.is_null() {
		let f: MarkFn = unsafe { std::mem::transmute(p) };
		let c = std::ffi::CString::new(label).unwrap();
		unsafe { f(c.as_ptr()) };
	}
}

pub fn shim_start() -> bool {
	let p = sym("vshim_start");
	if p.is_null() {
		return false;
	}
	let f: VoidFn = unsafe { std::mem::transmute(p) };
	unsafe { f() };
	true
}

pub fn shim_fault(nth: i64, class: i32, errno: i32, persistent: bool, short: bool) {
	let p = sym("vshim_fault");
	if !p.is_null() {
		let f: FaultFn = unsafe { std::mem::transmute(p) };
		unsafe { f(nth as std::os::raw::c_long, class, errno, persistent as i32, short as i32) };
	}
}

pub fn shim_class_count() -> i64 {
	let p = sym("vshim_class_count");
	if p.is_null() {
		return 0;
	}
	let f: unsafe extern "C" fn() -> std::os::raw::c_long = unsafe { std::mem::transmute(p) };
	unsafe { f() as i64 }
}

/// `vharness worker trace <spec>`: run the workload on the (traced) directory and exit without
/// closing the store.
pub fn worker_trace(spec_file: &str) -> i32 {
	let txt = std::fs::read_to_string(spec_file).expect("spec");
	let j: J = serde_json::from_str(&txt).expect("spec json");
	let wl = Workload::from_json(&j);
	let root = PathBuf::from(j["root"].as_str().unwrap());
	surrealkv::verif::set_forced_height(wl.forced_height);
	if !shim_start() {
		println!("{}", json!({"error": "shim not loaded"}));
		return 2;
	}
	let mut w = crate::world::World::attach(wl.opt.clone(), &root, &[]);
	let mut results: Vec<J> = vec![];
	let mut commit_idx = 0usize;
	let mut fault_armed = false;
	let fault = j.get("fault").cloned();
	let probe_each = j["probe_after_each"].as_bool().unwrap_or(false);
	let arm = |f: &J| {
		shim_fault(f["nth"].as_i64().unwrap(), f["class"].as_i64().unwrap() as i32, f["errno"].as_i64().unwrap() as i32, f["persistent"].as_bool().unwrap_or(false), f["short"].as_bool().unwrap_or(false));
	};
	// faults are armed after the initial open unless asked otherwise
	if let Some(f) = &fault {
		if f["during_open"].as_bool().unwrap_or(false) {
			arm(f);
			fault_armed = true;
		}
	}
	shim_mark("open-begin");
	match w.open() {
		Ok(()) => shim_mark("open-ok"),
		Err(e) => {
			shim_mark("open-err");
			println!("{}", json!({"open_error": e, "results": results}));
			std::process::exit(0);
		}
	}
	if let (Some(f), false) = (&fault, fault_armed) {
		arm(f);
	}
	for op in &wl.ops {
		match op {
			Wop::W(ws, imm) => {
				shim_mark(&format!("begin:{commit_idx}"));
				let dur = if *imm { surrealkv::Durability::Immediate } else { surrealkv::Durability::Eventual };
				let r = w.commit(ws, dur);
				match r {
					Ok(Ok(())) => {
						shim_mark(&format!("ack:{commit_idx}:{}", if *imm { "imm" } else { "ev" }));
						results.push(json!({"commit": commit_idx, "ok": true}));
					}
					Ok(Err(e)) => {
						shim_mark(&format!("nack:{commit_idx}"));
						results.push(json!({"commit": commit_idx, "ok": false, "err": e}));
					}
					Err(e) => {
						shim_mark(&format!("nack:{commit_idx}"));
						results.push(json!({"commit": commit_idx, "ok": false, "err": format!("machinery: {e}")}));
					}
				}
				commit_idx += 1;
			}
			Wop::Sync => {
				let r = w.tree().flush_wal(true);
				if r.is_ok() {
					shim_mark("synced");
				}
				results.push(json!({"sync": r.is_ok(), "err": r.err().map(|e| e.to_string())}));
			}
			Wop::P(Phys::Reopen) => {
				let r = w.close();
				if r.is_ok() {
					shim_mark("synced");
					shim_mark("closed");
				}
				let r2 = w.open();
				results.push(json!({"reopen": r2.is_ok(), "close_err": r.err(), "open_err": r2.clone().err()}));
				if r2.is_err() {
					break;
				}
			}
			Wop::P(p) => {
				let r = w.physical(*p);
				results.push(json!({"phys": p.as_str(), "ok": r.is_ok(), "err": r.err()}));
			}
		}
		if probe_each && w.tree.is_some() {
			let view = match w.dump() {
				Ok(d) => json!(d.iter().map(|(k, v)| json!([String::from_utf8_lossy(k).to_string(), format!("{:016x}", crate::util::fnv64(v))])).collect::<Vec<_>>()),
				Err(e) => json!({"probe_error": e}),
			};
			if let Some(last) = results.last_mut() {
				last["view"] = view;
			}
		}
	}
	shim_mark("end");
	println!("{}", json!({"results": results, "class_count": shim_class_count()}));
	use std::io::Write as _;
	let _ = std::io::stdout().flush();
	// no clean close: the process just dies
	std::process::exit(0);
}

/// Convert world ops to workload ops (all Eventual).
pub fn from_world_ops(ops: &[Op]) -> Vec<Wop> {
	ops.iter()
		.filter_map(|o| match o {
			Op::W(ws) => Some(Wop::W(ws.clone(), false)),
			Op::P(p) => Some(Wop::P(*p)),
			_ => None,
		})
		.collect()
}

#[allow(dead_code)]
pub fn unused(_: HashMap<u8, u8>) {}
