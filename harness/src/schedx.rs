//! schedx — stateless, preemption-bounded exploration of real OS threads (CHESS-style).
//!
//! Managed threads hand a single baton around at the hook points compiled into surrealkv with
//! `--cfg surrealkv_verif` (`verif::yield_point`, `verif::acquire_point`) and at the points where
//! one of their async calls returns `Pending`. At each point the enabled set is computed in
//! canonical order (running thread first if still enabled, then ascending ids); an execution is
//! the list of choices taken; the default choice is 0. The explorer replays a prefix, follows
//! defaults to completion and branches on every later point whose alternative costs at most the
//! preemption bound. Executions are independent: fresh directory, fresh store, fresh threads.

use std::cell::RefCell;
use std::future::Future;
use std::pin::Pin;
use std::sync::atomic::{AtomicBool, Ordering};
use std::sync::{Arc, Condvar, Mutex};
use std::task::{Context, Poll, Wake, Waker};

#[derive(Clone, Copy, Debug, PartialEq, Eq)]
enum TState {
	NotStarted,
	Ready,
	Acquire,
	Blocked,
	Finished,
}

struct TInfo {
	state: TState,
	/// for Acquire: is the lock currently held by someone else? (borrowed from the parked thread's frame)
	is_locked: Option<*const (dyn Fn() -> bool + 'static)>,
	woken: Arc<AtomicBool>,
	point: &'static str,
}

unsafe impl Send for TInfo {}

#[derive(Clone, Debug)]
pub struct Point {
	pub enabled: Vec<usize>,
	pub chosen: usize,
	/// the thread that was running when the point was reached (None at start / after a finish)
	pub running: Option<usize>,
	pub running_enabled: bool,
	pub label: &'static str,
}

pub type ProbeFn = Box<dyn FnMut(usize, &'static str) + Send>;

struct State {
	threads: Vec<TInfo>,
	current: Option<usize>,
	prefix: Vec<usize>,
	points: Vec<Point>,
	aborting: bool,
	failure: Option<String>,
	max_points: usize,
	probe: Option<ProbeFn>,
}

pub struct Sched {
	st: Mutex<State>,
	cv: Condvar,
}

thread_local! {
	static CUR: RefCell<Option<(Arc<Sched>, usize)>> = const { RefCell::new(None) };
}

struct AbortExecution;

fn hook_yield(label: &'static str) {
	let cur = CUR.with(|c| c.borrow().clone());
	if let Some((s, me)) = cur {
		s.reschedule(me, TState::Ready, None, label);
	}
}

fn hook_acquire(label: &'static str, is_locked: &dyn Fn() -> bool) {
	let cur = CUR.with(|c| c.borrow().clone());
	if let Some((s, me)) = cur {
		// SAFETY: the closure lives in the caller's frame, which stays parked inside this call
		let p: *const (dyn Fn() -> bool) = is_locked;
		let p: *const (dyn Fn() -> bool + 'static) = unsafe { std::mem::transmute(p) };
		s.reschedule(me, TState::Acquire, Some(p), label);
	}
}

fn hook_event(_label: &'static str) {}

pub fn install() {
	surrealkv::verif::install_sched(surrealkv::verif::SchedHooks {
		yield_point: hook_yield,
		acquire_point: hook_acquire,
		event: hook_event,
	});
}

struct FlagWaker(Arc<AtomicBool>, Arc<Sched>);
impl Wake for FlagWaker {
	fn wake(self: Arc<Self>) {
		self.0.store(true, Ordering::SeqCst);
		// the woken thread only becomes *enabled*; whoever holds the baton decides when it runs
		let _ = &self.1;
	}
}

static ROUND_ROBIN: AtomicBool = AtomicBool::new(false);

/// Canonical order of the enabled threads other than the running one: ascending ids (default) or
/// cyclic after the running thread. Set per scenario, before any execution of it starts.
pub fn set_round_robin(on: bool) {
	ROUND_ROBIN.store(on, Ordering::SeqCst);
}

impl Sched {
	fn enabled_list(st: &State) -> Vec<usize> {
		let mut v = vec![];
		let en = |i: usize| -> bool {
			let t = &st.threads[i];
			match t.state {
				TState::Ready | TState::NotStarted => true,
				TState::Acquire => match t.is_locked {
					Some(p) => !unsafe { (*p)() },
					None => true,
				},
				TState::Blocked => t.woken.load(Ordering::SeqCst),
				TState::Finished => false,
			}
		};
		if let Some(c) = st.current {
			if en(c) {
				v.push(c);
			}
		}
		let n = st.threads.len();
		// default order of the other threads: ascending ids, or (round-robin mode) cyclically
		// starting after the thread that ran last
		let start = if ROUND_ROBIN.load(Ordering::SeqCst) { st.current.map(|c| c + 1).unwrap_or(0) } else { 0 };
		for k in 0..n {
			let i = (start + k) % n;
			if Some(i) != st.current && en(i) {
				v.push(i);
			}
		}
		v
	}

	/// The calling thread `me` reached a scheduling point with new state `ns`.
	fn reschedule(self: &Arc<Self>, me: usize, ns: TState, is_locked: Option<*const (dyn Fn() -> bool + 'static)>, label: &'static str) {
		let mut st = self.st.lock().unwrap();
		if st.aborting {
			drop(st);
			std::panic::resume_unwind(Box::new(AbortExecution));
		}
		st.threads[me].state = ns;
		st.threads[me].is_locked = is_locked;
		st.threads[me].point = label;
		self.decide(&mut st, Some(me), label);
		// wait for the baton
		if ns == TState::Finished {
			return;
		}
		while st.current != Some(me) && !st.aborting {
			st = self.cv.wait(st).unwrap();
		}
		if st.aborting {
			drop(st);
			std::panic::resume_unwind(Box::new(AbortExecution));
		}
		st.threads[me].state = TState::Ready;
		st.threads[me].is_locked = None;
	}

	fn decide(self: &Arc<Self>, st: &mut State, running: Option<usize>, label: &'static str) {
		let enabled = Self::enabled_list(st);
		if enabled.is_empty() {
			if st.threads.iter().all(|t| t.state == TState::Finished) {
				st.current = None;
				self.cv.notify_all();
				return;
			}
			let stuck: Vec<String> = st.threads.iter().enumerate().filter(|(_, t)| t.state != TState::Finished).map(|(i, t)| format!("t{i}@{}({:?})", t.point, t.state)).collect();
			st.failure = Some(format!("deadlock: no enabled thread; stuck: {}", stuck.join(", ")));
			st.aborting = true;
			st.current = None;
			self.cv.notify_all();
			return;
		}
		if st.points.len() >= st.max_points {
			let stuck: Vec<String> = st.threads.iter().enumerate().filter(|(_, t)| t.state != TState::Finished).map(|(i, t)| format!("t{i}@{}({:?})", t.point, t.state)).collect();
			st.failure = Some(format!("livelock: step horizon {} exceeded; threads: {}", st.max_points, stuck.join(", ")));
			st.aborting = true;
			st.current = None;
			self.cv.notify_all();
			return;
		}
		let step = st.points.len();
		let idx = if step < st.prefix.len() {
			let c = st.prefix[step];
			if c >= enabled.len() {
				st.failure = Some(format!("machinery: schedule diverged while replaying the prefix at point {step}: choice {c} but only {} enabled", enabled.len()));
				st.aborting = true;
				st.current = None;
				self.cv.notify_all();
				return;
			}
			c
		} else {
			0
		};
		let running_enabled = running.is_some() && enabled.first() == running.as_ref();
		st.points.push(Point {
			enabled: enabled.clone(),
			chosen: idx,
			running,
			running_enabled,
			label,
		});
		// probe while every managed thread is parked (the caller is inside the scheduler)
		if let Some(mut p) = st.probe.take() {
			let was = CUR.with(|c| c.borrow_mut().take());
			surrealkv::verif::set_managed(false);
			p(step, label);
			surrealkv::verif::set_managed(was.is_some());
			CUR.with(|c| *c.borrow_mut() = was);
			st.probe = Some(p);
		}
		st.current = Some(enabled[idx]);
		self.cv.notify_all();
	}

	/// Drive a future to completion on a managed thread; a Pending poll is a blocking point.
	pub fn block_on<F: Future>(self: &Arc<Self>, me: usize, fut: F) -> F::Output {
		let mut fut = Box::pin(fut);
		let woken = {
			let st = self.st.lock().unwrap();
			Arc::clone(&st.threads[me].woken)
		};
		let waker = Waker::from(Arc::new(FlagWaker(Arc::clone(&woken), Arc::clone(self))));
		let mut cx = Context::from_waker(&waker);
		loop {
			woken.store(false, Ordering::SeqCst);
			match Pin::as_mut(&mut fut).poll(&mut cx) {
				Poll::Ready(v) => return v,
				Poll::Pending => {
					self.reschedule(me, TState::Blocked, None, "await");
				}
			}
		}
	}
}

/// What one execution produced.
pub struct Execution<O> {
	pub points: Vec<Point>,
	pub choices: Vec<usize>,
	pub failure: Option<String>,
	pub outputs: Vec<Option<O>>,
	pub panics: Vec<Option<String>>,
}

pub type Program<O> = Box<dyn FnOnce(&Arc<Sched>, usize) -> O + Send>;

/// Seconds without any scheduling point after which an execution is declared stuck in a real lock.
pub const WATCHDOG_S: f64 = 30.0;

/// Run one execution: `programs[i]` is the body of managed thread i.
pub fn run<O: Send + 'static>(programs: Vec<Program<O>>, prefix: &[usize], max_points: usize, probe: Option<ProbeFn>) -> Execution<O> {
	let n = programs.len();
	let sched = Arc::new(Sched {
		st: Mutex::new(State {
			threads: (0..n)
				.map(|_| TInfo {
					state: TState::NotStarted,
					is_locked: None,
					woken: Arc::new(AtomicBool::new(false)),
					point: "start",
				})
				.collect(),
			current: None,
			prefix: prefix.to_vec(),
			points: vec![],
			aborting: false,
			failure: None,
			max_points,
			probe,
		}),
		cv: Condvar::new(),
	});
	let mut handles = vec![];
	for (i, prog) in programs.into_iter().enumerate() {
		let s = Arc::clone(&sched);
		handles.push(
			std::thread::Builder::new()
				.name(format!("managed-{i}"))
				.spawn(move || -> (Option<O>, Option<String>) {
					CUR.with(|c| *c.borrow_mut() = Some((Arc::clone(&s), i)));
					surrealkv::verif::set_managed(true);
					// wait to be scheduled for the first time
					{
						let mut st = s.st.lock().unwrap();
						while st.current != Some(i) && !st.aborting {
							st = s.cv.wait(st).unwrap();
						}
						if st.aborting {
							return (None, None);
						}
						st.threads[i].state = TState::Ready;
					}
					let r = std::panic::catch_unwind(std::panic::AssertUnwindSafe(|| prog(&s, i)));
					surrealkv::verif::set_managed(false);
					let out = match r {
						Ok(o) => (Some(o), None),
						Err(e) => {
							if e.is::<AbortExecution>() {
								(None, None)
							} else {
								let msg = e.downcast_ref::<&str>().map(|s| s.to_string()).or_else(|| e.downcast_ref::<String>().cloned()).unwrap_or("panic".into());
								let loc = crate::util::LAST_PANIC_LOC.with(|l| l.borrow().clone());
								(None, Some(format!("{msg} at {loc}")))
							}
						}
					};
					// hand the baton on
					let mut st = s.st.lock().unwrap();
					if !st.aborting {
						st.threads[i].state = TState::Finished;
						st.threads[i].point = "finished";
						s.decide(&mut st, None, "finish");
					}
					CUR.with(|c| *c.borrow_mut() = None);
					out
				})
				.expect("spawn managed thread"),
		);
	}
	// kick off: first decision
	{
		let mut st = sched.st.lock().unwrap();
		sched.decide(&mut st, None, "start");
	}
	// Watchdog: every wait inside the scheduler is a condition-variable wait that some other
	// managed thread ends. If no scheduling point is reached for a long time while threads are
	// unfinished, a managed thread is blocked OUTSIDE the scheduler, i.e. in a real lock of the
	// code under test that no modelled acquisition covers: a genuine lock cycle (or a modelling
	// gap - either way it must be looked at, not waited on for ever).
	let mut stuck = false;
	{
		let mut last = (0usize, std::time::Instant::now());
		loop {
			if handles.iter().all(|h| h.is_finished()) {
				break;
			}
			std::thread::sleep(std::time::Duration::from_millis(2));
			// (the scheduler state is held while a probe runs: a probe that blocks in a lock of the
			// store would block this loop too, so only try the lock)
			let npoints = match sched.st.try_lock() {
				Ok(st) => st.points.len(),
				Err(_) => {
					if last.1.elapsed().as_secs_f64() > 2.0 * WATCHDOG_S {
						eprintln!("machinery: the scheduler state has been held for {} s: the probe is blocked in a lock of the store that a parked thread holds", 2.0 * WATCHDOG_S);
						std::process::exit(2);
					}
					continue;
				}
			};
			if npoints != last.0 {
				last = (npoints, std::time::Instant::now());
			} else if last.1.elapsed().as_secs_f64() > WATCHDOG_S {
				let mut st = sched.st.lock().unwrap();
				let states: Vec<String> = st.threads.iter().enumerate().map(|(i, t)| format!("t{i}@{}({:?})", t.point, t.state)).collect();
				st.failure = Some(format!("real-deadlock: no scheduling point reached for {WATCHDOG_S} s; a managed thread is blocked in a lock outside the scheduler; thread states: {}", states.join(", ")));
				st.aborting = true;
				sched.cv.notify_all();
				stuck = true;
				break;
			}
		}
	}
	let mut outputs = vec![];
	let mut panics = vec![];
	for h in handles {
		if stuck && !h.is_finished() {
			// leave the blocked thread behind (it can never be joined)
			outputs.push(None);
			panics.push(None);
			continue;
		}
		match h.join() {
			Ok((o, p)) => {
				outputs.push(o);
				panics.push(p);
			}
			Err(_) => {
				outputs.push(None);
				panics.push(Some("thread join failed".into()));
			}
		}
	}
	let st = sched.st.lock().unwrap();
	Execution {
		points: st.points.clone(),
		choices: st.points.iter().map(|p| p.chosen).collect(),
		failure: st.failure.clone(),
		outputs,
		panics,
	}
}

/// Number of preemptions in choices[..upto]: a switch away from a thread that was still enabled.
pub fn preemptions(points: &[Point], upto: usize) -> usize {
	points[..upto].iter().filter(|p| p.running_enabled && p.chosen != 0).count()
}

/// Iterative context bounding: returns every schedule prefix to run, driven by a callback that
/// executes a prefix and returns its points. Depth-first; `visit` is called for every execution.
pub fn explore<F>(bound: usize, max_executions: usize, mut run_one: F) -> (u64, bool)
where
	F: FnMut(&[usize]) -> Option<Vec<Point>>,
{
	let mut stack: Vec<Vec<usize>> = vec![vec![]];
	let mut count = 0u64;
	let mut complete = true;
	while let Some(prefix) = stack.pop() {
		if count as usize >= max_executions {
			complete = false;
			break;
		}
		count += 1;
		let Some(points) = run_one(&prefix) else {
			// the callback asked to stop (budget)
			complete = false;
			break;
		};
		let mut children = vec![];
		for i in prefix.len()..points.len() {
			let p = &points[i];
			let before = preemptions(&points, i);
			for alt in 1..p.enabled.len() {
				let cost = before + usize::from(p.running_enabled);
				if cost > bound {
					continue;
				}
				let mut child: Vec<usize> = points[..i].iter().map(|q| q.chosen).collect();
				child.push(alt);
				children.push(child);
			}
		}
		// depth-first, earliest deviation explored first
		children.reverse();
		stack.extend(children);
	}
	(count, complete)
}
