//! Reference models. Deliberately boring.

use std::collections::BTreeMap;

use serde_json::{json, Value as J};

use crate::util::{hex, unhex};

#[derive(Clone, Copy, Debug, PartialEq, Eq, Hash, PartialOrd, Ord)]
pub enum Kind {
	Set,
	Delete,
	SoftDelete,
	Replace,
}

impl Kind {
	pub fn as_str(&self) -> &'static str {
		match self {
			Kind::Set => "set",
			Kind::Delete => "del",
			Kind::SoftDelete => "sdel",
			Kind::Replace => "rep",
		}
	}
	pub fn parse(s: &str) -> Kind {
		match s {
			"set" => Kind::Set,
			"del" => Kind::Delete,
			"sdel" => Kind::SoftDelete,
			"rep" => Kind::Replace,
			_ => panic!("bad kind {s}"),
		}
	}
	pub fn is_tombstone(&self) -> bool {
		matches!(self, Kind::Delete | Kind::SoftDelete)
	}
}

#[derive(Clone, Debug, PartialEq, Eq, Hash)]
pub struct Write {
	pub kind: Kind,
	pub key: Vec<u8>,
	pub value: Vec<u8>,
	/// explicit timestamp (versioned option sets); None = commit time
	pub ts: Option<u64>,
}

impl Write {
	pub fn set(k: &[u8], v: &[u8]) -> Write {
		Write {
			kind: Kind::Set,
			key: k.to_vec(),
			value: v.to_vec(),
			ts: None,
		}
	}
	pub fn new(kind: Kind, k: &[u8], v: &[u8]) -> Write {
		Write {
			kind,
			key: k.to_vec(),
			value: if kind.is_tombstone() { vec![] } else { v.to_vec() },
			ts: None,
		}
	}
	pub fn at(mut self, ts: u64) -> Write {
		self.ts = Some(ts);
		self
	}
	pub fn to_json(&self) -> J {
		json!({"k": hex(&self.key), "kind": self.kind.as_str(), "v": hex(&self.value), "ts": self.ts})
	}
	pub fn from_json(j: &J) -> Write {
		Write {
			kind: Kind::parse(j["kind"].as_str().unwrap()),
			key: unhex(j["k"].as_str().unwrap()),
			value: unhex(j["v"].as_str().unwrap()),
			ts: j["ts"].as_u64(),
		}
	}
	pub fn short(&self) -> String {
		match self.kind {
			Kind::Set | Kind::Replace => {
				format!("{}({}={})", self.kind.as_str(), hex(&self.key), hex(&self.value))
			}
			_ => format!("{}({})", self.kind.as_str(), hex(&self.key)),
		}
	}
}

pub type Txn = Vec<Write>;

/// Committed history in commit order.
#[derive(Clone, Debug, Default)]
pub struct KvModel {
	pub commits: Vec<Txn>,
}

impl KvModel {
	pub fn len(&self) -> usize {
		self.commits.len()
	}

	/// Value of `k` after the first `p` commits (later write in a transaction wins).
	pub fn visible(&self, p: usize, k: &[u8]) -> Option<Vec<u8>> {
		for t in self.commits[..p].iter().rev() {
			for w in t.iter().rev() {
				if w.key == k {
					return if w.kind.is_tombstone() { None } else { Some(w.value.clone()) };
				}
			}
		}
		None
	}

	/// All live (key, value) after the first `p` commits.
	pub fn state(&self, p: usize) -> BTreeMap<Vec<u8>, Vec<u8>> {
		let mut m: BTreeMap<Vec<u8>, Option<Vec<u8>>> = BTreeMap::new();
		for t in &self.commits[..p] {
			for w in t {
				m.insert(w.key.clone(), if w.kind.is_tombstone() { None } else { Some(w.value.clone()) });
			}
		}
		m.into_iter().filter_map(|(k, v)| v.map(|v| (k, v))).collect()
	}

	pub fn keys(&self) -> Vec<Vec<u8>> {
		let mut s = std::collections::BTreeSet::new();
		for t in &self.commits {
			for w in t {
				s.insert(w.key.clone());
			}
		}
		s.into_iter().collect()
	}
}

/// State `base` overlaid with pending writes (in issue order).
pub fn overlay(base: &BTreeMap<Vec<u8>, Vec<u8>>, pending: &[Write]) -> BTreeMap<Vec<u8>, Vec<u8>> {
	let mut m = base.clone();
	for w in pending {
		if w.kind.is_tombstone() {
			m.remove(&w.key);
		} else {
			m.insert(w.key.clone(), w.value.clone());
		}
	}
	m
}

pub fn in_range(k: &[u8], lo: Option<&[u8]>, hi: Option<&[u8]>) -> bool {
	lo.map_or(true, |l| k >= l) && hi.map_or(true, |h| k < h)
}
