//! C09 — range cursors enumerate exactly the live keys, in order, in both directions.
//!
//! Layouts from a placement grammar (each adversarial key gets one of 8 placements spread over
//! the write-set, memtable, L0 and L1, incl. tombstones and versions invisible to the snapshot),
//! tiny blocks/partitions; all bounds pairs (absent sides, empty, inverted); all cursor programs
//! over {seek_first, seek_last, seek t, next, prev} up to a length bound (after the cursor ran off
//! an end only seeks follow). Oracle: a cursor over the sorted list of live keys in [lo, hi).

use std::collections::{BTreeMap, HashSet};
use std::sync::Mutex;

use rayon::prelude::*;
use serde_json::{json, Value as J};
use surrealkv::{Durability, LSMIterator, Mode, ReadOptions, Transaction};

use crate::model::{Kind, Write};
use crate::util::{hex, unhex, Budget, Report, Tier, Violation};
use crate::world::{OptSet, Pairs, Phys, World};

pub const ALL_KEYS: [&[u8]; 4] = [b"a", b"a\x00", b"ab", b"\xff\xff"];

#[derive(Clone, Copy, Debug, PartialEq, Eq, Hash)]
pub enum Cop {
	First,
	Last,
	Seek(usize), // index into points
	Next,
	Prev,
}

fn cop_str(c: &Cop, points: &[Vec<u8>]) -> String {
	match c {
		Cop::First => "seek_first".into(),
		Cop::Last => "seek_last".into(),
		Cop::Seek(i) => format!("seek({})", hex(&points[*i])),
		Cop::Next => "next".into(),
		Cop::Prev => "prev".into(),
	}
}

/// Build the layout; returns the world (kept alive), the reader transaction with its pending
/// writes applied, and the expected live view.
pub struct Layout {
	pub world: World,
	pub txn: Box<Transaction>,
	pub view: BTreeMap<Vec<u8>, Vec<u8>>,
}

pub fn build_layout(opt: &OptSet, keys: &[&[u8]], placement: &[u8]) -> Result<Layout, String> {
	let mut w = World::new(opt.clone(), keys)?;
	let val = |tag: &str, k: &[u8]| format!("{tag}-{}", hex(k)).into_bytes();
	let sel = |ps: &[u8]| -> Vec<&[u8]> {
		keys.iter().zip(placement).filter(|(_, p)| ps.contains(p)).map(|(k, _)| *k).collect()
	};
	let commit = |w: &mut World, ws: Vec<Write>| -> Result<(), String> {
		if ws.is_empty() {
			return Ok(());
		}
		w.commit(&ws, Durability::Eventual)?.map_err(|e| e)
	};
	// Phase A: values that end up in L1
	let a = sel(&[1, 2, 3, 4, 6, 7]);
	commit(&mut w, a.iter().map(|k| Write::set(k, &val("l1", k))).collect())?;
	if !a.is_empty() {
		w.physical(Phys::FlushAll)?;
		w.physical(Phys::Compact)?;
	}
	// Phase B: tombstones in L0
	let b = sel(&[2, 3]);
	commit(&mut w, b.iter().map(|k| Write::new(Kind::Delete, k, b"")).collect())?;
	if !b.is_empty() {
		w.physical(Phys::FlushAll)?;
	}
	// Phase C: memtable values over the L0 tombstone
	let c = sel(&[3]);
	commit(&mut w, c.iter().map(|k| Write::set(k, &val("mem", k))).collect())?;
	// the reader
	let _g = w.rt.as_ref().unwrap().enter();
	let mut txn = w.tree().begin_with_mode(Mode::ReadWrite).map_err(|e| format!("{e}"))?;
	drop(_g);
	let mut view = w.model.state(w.model.len());
	// Phase D: newer versions, invisible to the reader
	let d = sel(&[4]);
	commit(&mut w, d.iter().map(|k| Write::set(k, &val("new", k))).collect())?;
	// pending writes
	for (k, p) in keys.iter().zip(placement) {
		match p {
			5 | 7 => {
				let v = val("pend", k);
				txn.set(*k, v.as_slice()).map_err(|e| format!("{e}"))?;
				view.insert(k.to_vec(), v);
			}
			6 => {
				txn.delete(*k).map_err(|e| format!("{e}"))?;
				view.remove(*k);
			}
			_ => {}
		}
	}
	Ok(Layout {
		world: w,
		txn: Box::new(txn),
		view,
	})
}

pub fn points_for(keys: &[&[u8]]) -> Vec<Vec<u8>> {
	let mut p: Vec<Vec<u8>> = vec![b"\x01".to_vec()];
	for k in keys {
		p.push(k.to_vec());
		let mut s = k.to_vec();
		s.push(0);
		p.push(s);
	}
	p.sort();
	p.dedup();
	p
}

#[derive(Clone, Debug)]
pub struct Failure {
	pub class: String,
	pub text: String,
}

fn bounds_kind(lo: &Option<Vec<u8>>, hi: &Option<Vec<u8>>) -> &'static str {
	match (lo, hi) {
		(None, None) => "unbounded",
		(Some(_), None) => "absent-upper",
		(None, Some(_)) => "absent-lower",
		(Some(l), Some(h)) if l > h => "inverted",
		(Some(l), Some(h)) if l == h => "empty",
		_ => "bounded",
	}
}

/// Run one cursor program; `via_options` selects range_with_options vs range(start,end).
pub fn run_cursor(
	txn: &Transaction,
	view: &BTreeMap<Vec<u8>, Vec<u8>>,
	lo: &Option<Vec<u8>>,
	hi: &Option<Vec<u8>>,
	via_options: bool,
	prog: &[Cop],
	points: &[Vec<u8>],
) -> Option<Failure> {
	let bk = bounds_kind(lo, hi);
	let list: Pairs = view
		.iter()
		.filter(|(k, _)| crate::model::in_range(k, lo.as_deref(), hi.as_deref()))
		.map(|(k, v)| (k.clone(), v.clone()))
		.collect();
	let res = crate::util::guarded(|| -> Result<Option<Failure>, String> {
		let mut it: Box<dyn LSMIterator + '_> = if via_options {
			let mut ro = ReadOptions::new();
			ro.set_iterate_lower_bound(lo.clone());
			ro.set_iterate_upper_bound(hi.clone());
			match txn.range_with_options(&ro) {
				Ok(it) => Box::new(it),
				Err(e) => return Err(format!("{e}")),
			}
		} else {
			match txn.range(lo.clone().unwrap(), hi.clone().unwrap()) {
				Ok(it) => Box::new(it),
				Err(e) => return Err(format!("{e}")),
			}
		};
		let mut pos: Option<usize> = None;
		let mut dir_changes = 0;
		let mut last_dir: Option<bool> = None;
		for (i, op) in prog.iter().enumerate() {
			let r = match op {
				Cop::First => {
					pos = if list.is_empty() { None } else { Some(0) };
					last_dir = Some(true);
					it.seek_first()
				}
				Cop::Last => {
					pos = if list.is_empty() { None } else { Some(list.len() - 1) };
					last_dir = Some(false);
					it.seek_last()
				}
				Cop::Seek(t) => {
					let t = &points[*t];
					let idx = list.partition_point(|(k, _)| k < t);
					pos = if idx < list.len() { Some(idx) } else { None };
					last_dir = Some(true);
					it.seek(t)
				}
				Cop::Next => {
					let p = pos.unwrap();
					pos = if p + 1 < list.len() { Some(p + 1) } else { None };
					if last_dir == Some(false) {
						dir_changes += 1;
					}
					last_dir = Some(true);
					it.next()
				}
				Cop::Prev => {
					let p = pos.unwrap();
					pos = if p > 0 { Some(p - 1) } else { None };
					if last_dir == Some(true) {
						dir_changes += 1;
					}
					last_dir = Some(false);
					it.prev()
				}
			};
			let opname = match op {
				Cop::Seek(_) => "seek",
				Cop::First => "seek_first",
				Cop::Last => "seek_last",
				Cop::Next => "next",
				Cop::Prev => "prev",
			};
			let rev = if dir_changes > 0 { "after-reversal" } else { "no-reversal" };
			let ret = match r {
				Ok(b) => b,
				Err(e) => {
					return Ok(Some(Failure {
						class: format!("cursor-error:{bk}:{opname}:{}", crate::props::norm_msg(&format!("{e}"))),
						text: format!("op {i} {} -> Err({e})", cop_str(op, points)),
					}))
				}
			};
			let got = if it.valid() {
				let k = it.key().user_key().to_vec();
				match it.value() {
					Ok(v) => Some((k, v)),
					Err(e) => {
						return Ok(Some(Failure {
							class: format!("cursor-error:{bk}:value"),
							text: format!("op {i} {}: value() -> Err({e})", cop_str(op, points)),
						}))
					}
				}
			} else {
				None
			};
			let exp = pos.map(|p| list[p].clone());
			if got != exp || ret != got.is_some() {
				let f = |x: &Option<(Vec<u8>, Vec<u8>)>| match x {
					None => "invalid".to_string(),
					Some((k, v)) => format!("{}={}", hex(k), hex(v)),
				};
				let rel = match (&exp, &got) {
					(Some(_), None) => "missing",
					(None, Some(_)) => "extra",
					_ if ret != got.is_some() => "retval",
					_ => "wrong-entry",
				};
				return Ok(Some(Failure {
					class: format!("cursor:{bk}:{opname}:{rev}:{rel}"),
					text: format!(
						"op {i} {} -> {} (returned {ret}), expected {}; list={:?}",
						cop_str(op, points),
						f(&got),
						f(&exp),
						list.iter().map(|(k, _)| hex(k)).collect::<Vec<_>>()
					),
				}));
			}
		}
		Ok(None)
	});
	match res {
		Ok(Ok(f)) => f,
		Ok(Err(e)) => {
			// construction error: acceptable for inverted ranges only
			if bk == "inverted" {
				None
			} else {
				Some(Failure {
					class: format!("cursor-construct-error:{bk}:{}", crate::props::norm_msg(&e)),
					text: format!("range construction -> Err({e})"),
				})
			}
		}
		Err(p) => Some(Failure {
			class: format!("cursor-panic:{bk}:{}", crate::props::norm_msg(&p)),
			text: p,
		}),
	}
}

/// All programs of exactly `len` ops (first op is a seek; next/prev only while valid per model —
/// validity depends on the list, so generation is done against the concrete list).
fn gen_programs(list_len: usize, list_keys: &[Vec<u8>], seek_targets: &[usize], points: &[Vec<u8>], len: usize, max_rev: usize) -> Vec<Vec<Cop>> {
	let mut out = vec![];
	#[allow(clippy::too_many_arguments)]
	fn rec(
		list_len: usize,
		list_keys: &[Vec<u8>],
		seek_targets: &[usize],
		points: &[Vec<u8>],
		len: usize,
		max_rev: usize,
		cur: &mut Vec<Cop>,
		pos: Option<usize>,
		last_dir: Option<bool>,
		revs: usize,
		out: &mut Vec<Vec<Cop>>,
	) {
		if cur.len() == len {
			out.push(cur.clone());
			return;
		}
		let mut push = |op: Cop, npos: Option<usize>, ndir: Option<bool>, nrev: usize, cur: &mut Vec<Cop>, out: &mut Vec<Vec<Cop>>| {
			cur.push(op);
			rec(list_len, list_keys, seek_targets, points, len, max_rev, cur, npos, ndir, nrev, out);
			cur.pop();
		};
		push(Cop::First, if list_len == 0 { None } else { Some(0) }, Some(true), revs, cur, out);
		push(Cop::Last, if list_len == 0 { None } else { Some(list_len - 1) }, Some(false), revs, cur, out);
		for &t in seek_targets {
			let idx = list_keys.partition_point(|k| k < &points[t]);
			push(Cop::Seek(t), if idx < list_len { Some(idx) } else { None }, Some(true), revs, cur, out);
		}
		if let Some(p) = pos {
			let r = revs + usize::from(last_dir == Some(false));
			if r <= max_rev {
				push(Cop::Next, if p + 1 < list_len { Some(p + 1) } else { None }, Some(true), r, cur, out);
			}
			let r = revs + usize::from(last_dir == Some(true));
			if r <= max_rev {
				push(Cop::Prev, if p > 0 { Some(p - 1) } else { None }, Some(false), r, cur, out);
			}
		}
	}
	rec(list_len, list_keys, seek_targets, points, len, max_rev, &mut vec![], None, None, 0, &mut out);
	out
}

fn placements(nkeys: usize) -> Vec<Vec<u8>> {
	let mut out = vec![];
	let total = 8usize.pow(nkeys as u32);
	for mut n in 0..total {
		let mut v = vec![];
		for _ in 0..nkeys {
			v.push((n % 8) as u8);
			n /= 8;
		}
		out.push(v);
	}
	// simplest first: fewer non-absent keys, then lower placement numbers
	out.sort_by_key(|v| (v.iter().filter(|p| **p != 0).count(), v.iter().map(|p| *p as u32).sum::<u32>()));
	out
}

struct LayoutResult {
	evaluations: u64,
	transitions: u64,
	failures: Vec<(String, String, J)>,
	states: HashSet<u64>,
	nontrivial: u64,
}

fn run_layout(opt: &OptSet, keys: &[&[u8]], placement: &[u8], maxlen: usize, max_rev: usize) -> Result<LayoutResult, String> {
	let lay = build_layout(opt, keys, placement)?;
	let points = points_for(keys);
	let mut res = LayoutResult {
		evaluations: 0,
		transitions: 0,
		failures: vec![],
		states: HashSet::new(),
		nontrivial: 0,
	};
	let mut seen_class: HashSet<String> = HashSet::new();
	let mut bounds: Vec<Option<Vec<u8>>> = vec![None];
	bounds.extend(points.iter().cloned().map(Some));
	for lo in &bounds {
		for hi in &bounds {
			let list_keys: Vec<Vec<u8>> = lay
				.view
				.keys()
				.filter(|k| crate::model::in_range(k, lo.as_deref(), hi.as_deref()))
				.cloned()
				.collect();
			let seek_targets: Vec<usize> = (0..points.len())
				.filter(|&i| crate::model::in_range(&points[i], lo.as_deref(), hi.as_deref()))
				.collect();
			let both = lo.is_some() && hi.is_some();
			for len in 1..=maxlen {
				let progs = gen_programs(list_keys.len(), &list_keys, &seek_targets, &points, len, max_rev);
				for prog in &progs {
					for via_options in [true, false] {
						if !via_options && !both {
							continue;
						}
						res.evaluations += 1;
						res.transitions += prog.len() as u64;
						let reversal = prog.windows(2).any(|w| matches!((w[0], w[1]), (Cop::Next, Cop::Prev) | (Cop::Prev, Cop::Next) | (Cop::First, Cop::Prev) | (Cop::Last, Cop::Next) | (Cop::Seek(_), Cop::Prev)));
						if reversal && list_keys.len() >= 2 {
							res.nontrivial += 1;
						}
						res.states.insert(crate::util::fnv64(format!("{placement:?}{lo:?}{hi:?}{}", list_keys.len()).as_bytes()));
						if let Some(f) = run_cursor(&lay.txn, &lay.view, lo, hi, via_options, prog, &points) {
							let first = seen_class.insert(f.class.clone());
							let text = if first {
								format!(
									"[{}] keys={:?} placement={:?} bounds=({},{}) api={} program=[{}] => {}",
									opt.name,
									keys.iter().map(|k| hex(k)).collect::<Vec<_>>(),
									placement,
									lo.as_ref().map(|b| hex(b)).unwrap_or("-".into()),
									hi.as_ref().map(|b| hex(b)).unwrap_or("-".into()),
									if via_options { "range_with_options" } else { "range" },
									prog.iter().map(|c| cop_str(c, &points)).collect::<Vec<_>>().join(", "),
									f.text
								)
							} else {
								String::new()
							};
							let replay = if first {
								json!({
									"engine": "c09", "options": opt.to_json(),
									"keys": keys.iter().map(|k| hex(k)).collect::<Vec<_>>(),
									"placement": placement, "lo": lo.as_ref().map(|b| hex(b)), "hi": hi.as_ref().map(|b| hex(b)),
									"via_options": via_options,
									"program": prog.iter().map(|c| match c { Cop::First => json!("first"), Cop::Last => json!("last"), Cop::Next => json!("next"), Cop::Prev => json!("prev"), Cop::Seek(i) => json!({"seek": hex(&points[*i])}) }).collect::<Vec<_>>(),
								})
							} else {
								J::Null
							};
							res.failures.push((f.class, text, replay));
						}
					}
				}
			}
		}
	}
	Ok(res)
}

pub fn check(tier: Tier) -> i32 {
	surrealkv::verif::set_forced_height(1);
	let mut report = Report::new("C09", tier, "model_checking");
	let budget = Budget::new(if tier == Tier::Quick { 45.0 } else { 1100.0 });
	let opt = OptSet::base("L3-tinyblocks").levels(3).tiny_blocks();
	// (number of keys, program length, max reversals)
	let plans: Vec<(usize, usize, usize)> =
		if tier == Tier::Quick { vec![(2, 5, 3), (3, 3, 2)] } else { vec![(2, 6, 3), (3, 5, 3), (4, 4, 2)] };
	let mut evaluations = 0u64;
	let mut transitions = 0u64;
	let mut nontrivial = 0u64;
	let mut states: HashSet<u64> = HashSet::new();
	let mut per_class: BTreeMap<String, u64> = BTreeMap::new();
	let mut completed = vec![];
	let mut all_complete = true;
	let mut samples = vec![];
	'outer: for (nkeys, maxlen, max_rev) in &plans {
		let keys: Vec<&[u8]> = ALL_KEYS[..*nkeys].to_vec();
		let pls = placements(*nkeys);
		let mut done_layouts = 0usize;
		for part in pls.chunks(64) {
			if budget.exhausted() {
				all_complete = false;
				report.set("cap_hit", json!(format!("time cap hit at keys={nkeys} after {done_layouts} of {} layouts", pls.len())));
				completed.push(format!("keys={nkeys} len<={maxlen}: {done_layouts} of {} layouts (simplest first)", pls.len()));
				break 'outer;
			}
			let results: Mutex<Vec<(usize, Result<LayoutResult, String>)>> = Mutex::new(vec![]);
			part.par_iter().enumerate().for_each(|(i, pl)| {
				let r = crate::util::guarded(|| run_layout(&opt, &keys, pl, *maxlen, *max_rev)).unwrap_or_else(|p| Err(format!("layout panic: {p}")));
				results.lock().unwrap().push((i, r));
			});
			let mut results = results.into_inner().unwrap();
			results.sort_by_key(|r| r.0);
			for (i, r) in results {
				match r {
					Err(e) => {
						eprintln!("machinery: layout {:?} could not be built: {e}", part[i]);
						return 2;
					}
					Ok(lr) => {
						evaluations += lr.evaluations;
						transitions += lr.transitions;
						nontrivial += lr.nontrivial;
						states.extend(lr.states);
						for (class, text, replay) in lr.failures {
							let n = per_class.entry(class.clone()).or_default();
							*n += 1;
							report.violations.push(Violation {
								class,
								what: text,
								replay,
							});
						}
					}
				}
			}
			done_layouts += part.len();
		}
		if samples.len() < 3 {
			samples.push(json!({"keys": keys.iter().map(|k| hex(k)).collect::<Vec<_>>(), "placement": pls[pls.len() / 2], "bounds": "(a, a\\x00\\x00)", "program": "seek_last, prev, next, next"}));
		}
		completed.push(format!("keys={nkeys} len<={maxlen} reversals<={max_rev}: all {} layouts x all bounds pairs x all programs", pls.len()));
	}
	// keep only the first text/replay per class
	let mut seen = HashSet::new();
	for v in report.violations.iter_mut() {
		if !seen.insert(v.class.clone()) {
			v.what.clear();
			v.replay = J::Null;
		}
	}
	report.violations.sort_by_key(|v| v.what.is_empty());
	report.set("evaluations", json!(evaluations));
	report.set("states", json!(states.len().max(1)));
	report.set("transitions", json!(transitions.max(1)));
	report.set("traces_validated_against_impl", json!(evaluations));
	report.set("distinct_nontrivial", json!(nontrivial));
	report.set("rule", json!("layouts = 8 placements per key (absent, L1 value, L0 tombstone over L1, memtable over L0 tombstone, invisible newer version, pending set, pending delete, pending overwrite) ^ keys; bounds = ({absent} u points)^2 with points = keys, key+\\0 and one point before all; programs = all op lists of each length (first op a seek, next/prev only while valid, seeks target points inside the bounds); both range() and range_with_options(); non-trivial = program contains a direction reversal over a list of >= 2 keys; states = distinct (layout, bounds, list length)"));
	report.set("samples", json!(samples));
	report.set("bounds_completed", json!(completed));
	report.set("exhaustive", json!(all_complete));
	report.set("failures_per_class", json!(per_class));
	report.assume("key alphabet a, a\\0, ab, \\xff\\xff; one option set (3 levels, one entry per block and per index partition)");
	report.finish()
}

pub fn replay(r: &J) -> i32 {
	surrealkv::verif::set_forced_height(1);
	let opt = OptSet::from_json(&r["options"]);
	let keys_v: Vec<Vec<u8>> = r["keys"].as_array().unwrap().iter().map(|k| unhex(k.as_str().unwrap())).collect();
	let keys: Vec<&[u8]> = keys_v.iter().map(|k| k.as_slice()).collect();
	let placement: Vec<u8> = r["placement"].as_array().unwrap().iter().map(|p| p.as_u64().unwrap() as u8).collect();
	let lo = r["lo"].as_str().map(unhex);
	let hi = r["hi"].as_str().map(unhex);
	let via = r["via_options"].as_bool().unwrap();
	let points = points_for(&keys);
	let prog: Vec<Cop> = r["program"]
		.as_array()
		.unwrap()
		.iter()
		.map(|c| match c {
			J::String(s) => match s.as_str() {
				"first" => Cop::First,
				"last" => Cop::Last,
				"next" => Cop::Next,
				_ => Cop::Prev,
			},
			o => {
				let t = unhex(o["seek"].as_str().unwrap());
				Cop::Seek(points.iter().position(|p| *p == t).expect("seek target"))
			}
		})
		.collect();
	let mut outs = vec![];
	for _ in 0..2 {
		let lay = match build_layout(&opt, &keys, &placement) {
			Ok(l) => l,
			Err(e) => {
				eprintln!("machinery: {e}");
				return 2;
			}
		};
		outs.push(run_cursor(&lay.txn, &lay.view, &lo, &hi, via, &prog, &points).map(|f| (f.class, f.text)));
	}
	if outs[0] != outs[1] {
		eprintln!("machinery: replay not deterministic");
		return 2;
	}
	match &outs[0] {
		Some((c, t)) => {
			println!("VIOLATION property=C09 replay=<this file>\n  class={c} {t}");
			1
		}
		None => {
			println!("replay passed: no violation");
			0
		}
	}
}
