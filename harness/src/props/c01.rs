//! C01 — transactions read from a stable snapshot (sequential part: histories × placements).
//!
//! World sequences with up to two long-lived readers (begin / drop / pending writes / an open
//! range cursor stepped across physical operations), commits and physical operations in every
//! order up to a length bound. After every step every open reader's point reads and both scan
//! directions must equal the KvModel at the prefix fixed when it began, overlaid with its own
//! pending writes; an open cursor must keep following the sorted list computed when it was opened.

use serde_json::json;

use crate::model::{Kind, Write};
use crate::props::{classify_world_failure, run_world_space, SpaceStats};
use crate::util::{Budget, Report, Tier};
use crate::world::{ops_short, Op, OptSet, Phys, WorldFailure};

pub const PROBE: [&[u8]; 3] = [b"a", b"b", b"c"];

#[derive(Clone)]
pub struct Grammar {
	pub name: &'static str,
	pub max_len: usize,
	pub max_w: usize,
	pub max_p: usize,
	pub max_r: usize,
	pub writes: Vec<(Kind, &'static [u8])>,
	pub phys: Vec<Phys>,
	pub max_readers: u8,
	pub cursors: bool,
	pub pending: bool,
	pub ro_readers: bool,
	/// value sizes per write (empty = default tokens)
	pub sizes: Vec<usize>,
}

struct GenState {
	w: usize,
	p: usize,
	r: usize,
	open: Vec<bool>,   // reader i open
	cursor: Vec<bool>, // reader i has cursor
	began: bool,
	after_begin_activity: bool,
}

fn sized_token(i: usize, size: usize) -> Vec<u8> {
	let mut v = format!("{i:02}").into_bytes();
	v.truncate(size);
	while v.len() < size {
		v.push(b'a' + (v.len() % 26) as u8);
	}
	v
}

fn token(i: usize) -> Vec<u8> {
	if i % 2 == 0 {
		format!("v{i}").into_bytes()
	} else {
		format!("value-{i}-0123456789").into_bytes()
	}
}

pub fn generate(g: &Grammar) -> Vec<Vec<Op>> {
	let mut out = vec![];
	let mut st = GenState {
		w: 0,
		p: 0,
		r: 0,
		open: vec![false; g.max_readers as usize],
		cursor: vec![false; g.max_readers as usize],
		began: false,
		after_begin_activity: false,
	};
	fn rec(g: &Grammar, st: &mut GenState, cur: &mut Vec<Op>, out: &mut Vec<Vec<Op>>) {
		if (st.began && st.after_begin_activity) || (g.max_readers == 0 && matches!(cur.last(), Some(Op::P(_)))) {
			out.push(cur.clone());
		}
		if cur.len() >= g.max_len {
			return;
		}
		// commits
		if st.w < g.max_w {
			for (kind, k) in &g.writes {
				let toks: Vec<Vec<u8>> = if g.sizes.is_empty() || kind.is_tombstone() { vec![token(cur.len())] } else { g.sizes.iter().map(|s| sized_token(cur.len(), *s)).collect() };
				for tok in toks {
					cur.push(Op::W(vec![Write::new(*kind, k, &tok)]));
					st.w += 1;
					let saved = st.after_begin_activity;
					if st.began {
						st.after_begin_activity = true;
					}
					rec(g, st, cur, out);
					st.after_begin_activity = saved;
					st.w -= 1;
					cur.pop();
				}
			}
		}
		// physical (only once something was written)
		if st.p < g.max_p && st.w > 0 {
			for p in &g.phys {
				cur.push(Op::P(*p));
				st.p += 1;
				let saved = st.after_begin_activity;
				if st.began {
					st.after_begin_activity = true;
				}
				rec(g, st, cur, out);
				st.after_begin_activity = saved;
				st.p -= 1;
				cur.pop();
			}
		}
		// reader operations
		if st.r < g.max_r {
			// begin: smallest closed id only (symmetry)
			if let Some(i) = st.open.iter().position(|o| !*o) {
				let modes: &[bool] = if g.ro_readers { &[false, true] } else { &[false] };
				for ro in modes {
					cur.push(Op::Begin(i as u8, *ro));
					st.open[i] = true;
					st.r += 1;
					let sb = st.began;
					st.began = true;
					rec(g, st, cur, out);
					st.began = sb;
					st.r -= 1;
					st.open[i] = false;
					cur.pop();
				}
			}
			for i in 0..st.open.len() {
				if !st.open[i] {
					continue;
				}
				// drop
				{
					cur.push(Op::DropR(i as u8));
					st.open[i] = false;
					let sc = st.cursor[i];
					st.cursor[i] = false;
					st.r += 1;
					rec(g, st, cur, out);
					st.r -= 1;
					st.cursor[i] = sc;
					st.open[i] = true;
					cur.pop();
				}
				if g.cursors {
					if !st.cursor[i] {
						cur.push(Op::CurOpen(i as u8));
						st.cursor[i] = true;
						st.r += 1;
						rec(g, st, cur, out);
						st.r -= 1;
						st.cursor[i] = false;
						cur.pop();
					} else {
						for fwd in [true, false] {
							cur.push(Op::CurStep(i as u8, fwd));
							st.r += 1;
							rec(g, st, cur, out);
							st.r -= 1;
							cur.pop();
						}
					}
				}
				if g.pending {
					// pending writes only on read-write readers: find its Begin
					let rw = cur.iter().rev().find_map(|o| match o {
						Op::Begin(j, ro) if *j as usize == i => Some(!*ro),
						_ => None,
					});
					if rw == Some(true) {
						for (kind, k) in [(Kind::Set, b"a" as &[u8]), (Kind::Delete, b"b")] {
							let tok = format!("p{}", cur.len()).into_bytes();
							cur.push(Op::RWrite(i as u8, Write::new(kind, k, &tok)));
							let sc = st.cursor[i];
							st.cursor[i] = false;
							st.r += 1;
							rec(g, st, cur, out);
							st.r -= 1;
							st.cursor[i] = sc;
							cur.pop();
						}
					}
				}
			}
		}
	}
	rec(g, &mut st, &mut vec![], &mut out);
	// simplest first
	out.sort_by_key(|l| l.len());
	out
}

pub fn grammars(tier: Tier) -> Vec<Grammar> {
	let core_w: Vec<(Kind, &'static [u8])> = vec![(Kind::Set, b"a"), (Kind::Delete, b"a")];
	let wide_w: Vec<(Kind, &'static [u8])> =
		vec![(Kind::Set, b"a"), (Kind::Set, b"b"), (Kind::Delete, b"a"), (Kind::SoftDelete, b"b")];
	match tier {
		Tier::Quick => vec![
			Grammar {
				name: "core-deep",
				max_len: 7,
				max_w: 3,
				max_p: 3,
				max_r: 3,
				writes: core_w.clone(),
				phys: vec![Phys::FlushAll, Phys::Compact],
				max_readers: 2,
				cursors: false,
				pending: false,
				ro_readers: false,
				sizes: vec![],
			},
			Grammar {
				name: "wide-shallow",
				max_len: 5,
				max_w: 2,
				max_p: 2,
				max_r: 3,
				writes: wide_w.clone(),
				phys: vec![Phys::FlushAll, Phys::Compact, Phys::Rotate, Phys::Drain],
				max_readers: 2,
				cursors: true,
				pending: true,
				ro_readers: true,
				sizes: vec![],
			},
		],
		Tier::Thorough => vec![
			Grammar {
				name: "core-deep",
				max_len: 10,
				max_w: 4,
				max_p: 4,
				max_r: 4,
				writes: core_w,
				phys: vec![Phys::FlushAll, Phys::Compact],
				max_readers: 2,
				cursors: false,
				pending: false,
				ro_readers: false,
				sizes: vec![],
			},
			Grammar {
				name: "wide",
				max_len: 7,
				max_w: 3,
				max_p: 3,
				max_r: 3,
				writes: wide_w,
				phys: vec![Phys::FlushAll, Phys::Compact, Phys::Rotate, Phys::Drain, Phys::FlushOldest],
				max_readers: 2,
				cursors: true,
				pending: true,
				ro_readers: true,
				sizes: vec![],
			},
		],
	}
}

pub fn option_sets(tier: Tier) -> Vec<OptSet> {
	let mut v = vec![OptSet::base("L2").levels(2), OptSet::base("L3-vlog8-64").levels(3).with_vlog(8, 64)];
	if tier == Tier::Thorough {
		v.push(OptSet::base("L2-versioned").levels(2).versioned(0, false));
		v.push(OptSet::base("L1-tinyblocks").levels(1).tiny_blocks());
	}
	v
}

fn classify(f: &WorldFailure, _ops: &[Op], _opt: &OptSet) -> String {
	classify_world_failure(f)
}

pub fn check(tier: Tier) -> i32 {
	surrealkv::verif::set_forced_height(1);
	let mut report = Report::new("C01", tier, "model_checking");
	let budget = Budget::new(if tier == Tier::Quick { 42.0 } else { 800.0 });
	let mut stats = SpaceStats::default();
	let mut completed = vec![];
	let mut samples = vec![];
	let mut all_complete = true;
	let opts = option_sets(tier);
	'outer: for g in grammars(tier) {
		let lists = generate(&g);
		samples.push(json!({"grammar": g.name, "count": lists.len(), "example": ops_short(&lists[lists.len() * 2 / 3])}));
		for opt in &opts {
			// quick tier: the wide grammar runs on the first option set only
			if tier == Tier::Quick && g.name == "wide-shallow" && opt.name != opts[0].name {
				continue;
			}
			let done = run_world_space(&mut report, &mut stats, opt, &lists, &PROBE, &budget, &classify);
			if !done {
				all_complete = false;
				break 'outer;
			}
			completed.push(format!("grammar={} len<={} opt={} sequences={}", g.name, g.max_len, opt.name, lists.len()));
		}
	}
	report.set("evaluations", json!(stats.evaluations));
	report.set("states", json!(stats.states.len().max(1)));
	report.set("transitions", json!(stats.transitions.max(1)));
	report.set("traces_validated_against_impl", json!(stats.evaluations));
	report.set("distinct_nontrivial", json!(stats.nontrivial.len()));
	report.set(
		"rule",
		json!("all world sequences of a grammar (bounded length / commits / physical ops / reader ops; reader ids symmetric-reduced) that contain a Begin followed by at least one commit or physical op; non-trivial = some physical op changed the level shape; distinct by op list"),
	);
	report.set("samples", json!(samples));
	report.set("bounds_completed", json!(completed));
	report.set("exhaustive", json!(all_complete));
	report.set("failures_per_class", json!(stats.per_class));
	report.assume("option sets and key/value alphabets are fixed finite lists");
	// schedule part: a long-lived reader's begin and repeated reads interleaved with committers,
	// flush and compaction at the hook points (preemption-bounded)
	let code = crate::props::sched::run_into(&mut report, "C01", tier, if tier == Tier::Quick { 16.0 } else { 300.0 });
	if code != 0 {
		return code;
	}
	report.finish()
}
