//! C02 / C03 / C07(crash part) — crash-image enumeration.
//!
//! Workloads (bounded-exhaustive op lists over a small alphabet + rotation families) run traced;
//! for every crash point (after every file-system call) the process-crash image and the power-loss
//! family are built, de-duplicated by content, and opened with the real store:
//!   open → scan → crash again → open → scan (idempotent) → probe commit → read → clean close → open → scan.
//! C02: every acknowledged commit (process model) / every durably acknowledged commit (power model)
//!      is present; C03: the recovered content equals the KvModel at one prefix of the commit order;
//! C07: every image opens, repeated opening yields the same content, and the probe commit is
//!      visible and survives. A second generation (crash → recover → commit → crash) is run from
//!      distinct recovered images.

use std::collections::{BTreeMap, HashMap, HashSet};
use std::sync::Mutex;

use rayon::prelude::*;
use serde_json::{json, Value as J};
use surrealkv::Durability;

use crate::crashx::{build_image, enumerate_specs, marks_before, run_traced, wops_short, Ev, Fs, ImageSpec, Wop, Workload};
use crate::model::{Kind, KvModel, Write};
use crate::util::{fresh_dir, Budget, Report, Tier, Violation};
use crate::world::{OptSet, Pairs, Phys, World};

pub const PROBE_KEYS: [&[u8]; 3] = [b"a", b"b", b"zz-probe"];

/// Result of recovering one image.
#[derive(Clone, Debug)]
pub struct Recovered {
	pub open1: Result<Pairs, String>,
	pub open2: Option<Result<Pairs, String>>,
	pub probe: Option<Result<(), String>>,
	pub open3: Option<Result<Pairs, String>>,
	pub panic: Option<String>,
	/// value-log reference invariant violated right after the first recovery
	pub dangling: Option<String>,
}

pub fn recover(fs: &Fs, opt: &OptSet, deep: bool) -> Recovered {
	let dir = fresh_dir("img");
	let mut rec = Recovered {
		open1: Err("not run".into()),
		open2: None,
		probe: None,
		open3: None,
		panic: None,
		dangling: None,
	};
	let r = crate::util::guarded(|| {
		fs.materialize(&dir).map_err(|e| format!("materialize: {e}")).unwrap();
		let mut w = World::attach(opt.clone(), &dir, &PROBE_KEYS);
		rec.open1 = w.open().and_then(|_| w.dump());
		if rec.open1.is_ok() {
			if let Some(m) = w.check_index_pointers() {
				rec.dangling = Some(format!("{}: {}", m.query, m.got));
			}
		}
		if rec.open1.is_err() || !deep {
			w.abandon();
			return;
		}
		// crash again right after recovery, recover again
		w.abandon();
		rec.open2 = Some(w.open().and_then(|_| w.dump()));
		if !matches!(rec.open2, Some(Ok(_))) {
			w.abandon();
			return;
		}
		// probe commit: must be ordered after everything recovered
		let pr = w.commit(&[Write::set(b"zz-probe", b"probe"), Write::set(b"a", b"probe-a")], Durability::Immediate);
		rec.probe = Some(match pr {
			Ok(Ok(())) => match w.dump() {
				Ok(d) => {
					let a = d.iter().find(|(k, _)| k == b"a").map(|(_, v)| v.clone());
					let z = d.iter().find(|(k, _)| k == b"zz-probe").map(|(_, v)| v.clone());
					if a.as_deref() == Some(b"probe-a") && z.as_deref() == Some(b"probe") {
						Ok(())
					} else {
						Err(format!("probe commit not visible after recovery: a={:?} zz-probe={:?}", a.map(|v| String::from_utf8_lossy(&v).to_string()), z.map(|v| String::from_utf8_lossy(&v).to_string())))
					}
				}
				Err(e) => Err(format!("scan after probe: {e}")),
			},
			Ok(Err(e)) => Err(format!("probe commit failed: {e}")),
			Err(e) => Err(format!("probe commit: {e}")),
		});
		let _ = w.physical(Phys::FlushAll);
		match w.close() {
			Ok(()) => {
				rec.open3 = Some(w.open().and_then(|_| w.dump()));
				w.abandon();
			}
			Err(e) => rec.open3 = Some(Err(format!("close: {e}"))),
		}
	});
	if let Err(p) = r {
		rec.panic = Some(p);
	}
	let _ = std::fs::remove_dir_all(&dir);
	rec
}

/// The commits of a workload in order.
pub fn commits_of(ops: &[Wop]) -> Vec<(Vec<Write>, bool)> {
	ops.iter()
		.filter_map(|o| match o {
			Wop::W(ws, imm) => Some((ws.clone(), *imm)),
			_ => None,
		})
		.collect()
}

#[derive(Clone, Debug, Default)]
pub struct Obligation {
	/// commits whose ack mark precedes the crash point
	pub acked: usize,
	/// commits that must survive a power loss (acked and immediate, or acked before a `synced` mark)
	pub durable: usize,
	/// commits begun (a commit in flight may or may not be present)
	pub begun: usize,
	/// the store was inside (or before) its initial open at the crash point
	pub during_open: bool,
}

pub fn obligation(trace: &[Ev], point: usize) -> Obligation {
	let mut o = Obligation::default();
	let mut pending_acked: Vec<usize> = vec![]; // acked eventual commits not yet covered by a sync
	let mut open_ok = false;
	for m in marks_before(trace, point) {
		if let Some(rest) = m.strip_prefix("begin:") {
			o.begun = rest.parse::<usize>().unwrap() + 1;
		} else if let Some(rest) = m.strip_prefix("ack:") {
			let mut it = rest.split(':');
			let i: usize = it.next().unwrap().parse().unwrap();
			o.acked = i + 1;
			if it.next() == Some("imm") {
				// an fsync of the WAL makes everything appended before it durable too
				o.durable = i + 1;
				pending_acked.clear();
			} else {
				pending_acked.push(i);
			}
		} else if m == "synced" {
			o.durable = o.acked;
			pending_acked.clear();
		} else if m == "open-ok" {
			open_ok = true;
		}
	}
	o.during_open = !open_ok;
	o
}

/// Largest prefix p such that content == model.state(p), searching p in [0, n].
fn matching_prefix(model: &KvModel, content: &Pairs, n: usize, extra: &BTreeMap<Vec<u8>, Vec<u8>>) -> Option<usize> {
	let got: BTreeMap<Vec<u8>, Vec<u8>> = content.iter().cloned().collect();
	(0..=n).rev().find(|p| {
		let mut s = model.state(*p);
		for (k, v) in extra {
			s.insert(k.clone(), v.clone());
		}
		s == got
	})
}

/// C02 per-key criterion: every key holds the value of the obligated prefix or a newer write.
fn durability_violation(model: &KvModel, content: &Pairs, must: usize) -> Option<String> {
	let got: BTreeMap<Vec<u8>, Vec<u8>> = content.iter().cloned().collect();
	let want = model.state(must);
	let mut keys: HashSet<Vec<u8>> = want.keys().cloned().collect();
	keys.extend(model.keys());
	for k in keys {
		let g = got.get(&k);
		let w = want.get(&k);
		if g == w {
			continue;
		}
		// acceptable if produced by a commit at or after `must`
		let newer_ok = model.commits[must..].iter().any(|t| {
			t.iter().any(|wr| wr.key == k && if wr.kind.is_tombstone() { g.is_none() } else { g == Some(&wr.value) })
		});
		if !newer_ok {
			// which commit's write is missing?
			let lost = model.commits[..must]
				.iter()
				.enumerate()
				.rev()
				.find(|(_, t)| t.iter().any(|wr| wr.key == k))
				.map(|(i, _)| i);
			return Some(format!(
				"key {} = {:?}, but the {} acknowledged commits require {:?} (write of commit #{:?} lost)",
				String::from_utf8_lossy(&k),
				g.map(|v| String::from_utf8_lossy(v).to_string()),
				must,
				w.map(|v| String::from_utf8_lossy(v).to_string()),
				lost
			));
		}
	}
	None
}

#[derive(Clone, Debug)]
pub struct Finding {
	pub property: &'static str,
	pub class: String,
	pub text: String,
}

/// Diagnose the structural situation of a crash point (used to name known-finding classes).
fn situation(trace: &[Ev], spec: &ImageSpec) -> String {
	// last non-mark fs event before the crash point, reduced to a kind + file family
	let fam = |p: &str| -> &'static str {
		if p.contains("wal/") {
			"wal"
		} else if p.contains("sstables/") {
			"sst"
		} else if p.contains("manifest/") {
			"manifest"
		} else if p.contains("vlog/") {
			"vlog"
		} else if p.contains("versioned_index") {
			"index"
		} else {
			"other"
		}
	};
	let mut names: HashMap<u64, String> = HashMap::new();
	let mut last = "start".to_string();
	for e in &trace[..spec.point] {
		match e {
			Ev::Create(p, o) | Ev::OpenExist(p, o) => {
				names.insert(*o, p.clone());
				if matches!(e, Ev::Create(..)) {
					last = format!("create-{}", fam(p));
				}
			}
			Ev::Write(o, ..) => last = format!("write-{}", fam(names.get(o).map(|s| s.as_str()).unwrap_or(""))),
			Ev::Trunc(o, _) => last = format!("trunc-{}", fam(names.get(o).map(|s| s.as_str()).unwrap_or(""))),
			Ev::Fsync(o) => last = format!("fsync-{}", fam(names.get(o).map(|s| s.as_str()).unwrap_or(""))),
			Ev::Rename(_, b) => last = format!("rename-{}", fam(b)),
			Ev::Unlink(p) => last = format!("unlink-{}", fam(p)),
			_ => {}
		}
	}
	last
}

/// Coarse, stable bucket of an error message: digits and bracketed byte dumps removed.
fn err_bucket(e: &str) -> String {
	let mut out = String::new();
	let mut depth = 0;
	for c in e.chars() {
		match c {
			'[' | '(' => {
				depth += 1;
			}
			']' | ')' => {
				if depth > 0 {
					depth -= 1;
				}
			}
			_ if depth > 0 => {}
			c if c.is_ascii_digit() => {}
			c => out.push(c),
		}
	}
	out.split_whitespace().collect::<Vec<_>>().join(" ").chars().take(90).collect()
}

/// Judge one image against all three properties.
#[allow(clippy::too_many_arguments)]
pub fn judge(
	wl: &Workload,
	trace: &[Ev],
	spec: &ImageSpec,
	rec: &Recovered,
	model: &KvModel,
	base: &BTreeMap<Vec<u8>, Vec<u8>>,
	gen: usize,
	rotated_commits: &HashSet<usize>,
) -> Vec<Finding> {
	let mut out = vec![];
	let ob = obligation(trace, spec.point);
	let sit = situation(trace, spec);
	let pm = if spec.is_power() { "power" } else { "process" };
	let ctx = format!("gen{gen} [{}] {} | {} (after {}; acked={} durable={} begun={})", wl.opt.name, wops_short(&wl.ops), spec.short(), sit, ob.acked, ob.durable, ob.begun);
	if let Some(p) = &rec.panic {
		out.push(Finding {
			property: "C07",
			class: format!("recovery-panic:{}", crate::props::norm_msg(p)),
			text: format!("{ctx} => {p}"),
		});
		return out;
	}
	let content = match &rec.open1 {
		Err(e) => {
			out.push(Finding {
				property: "C07",
				class: format!("recovery-open-fails:{pm}:{}", err_bucket(e)),
				text: format!("{ctx} => open: {e}"),
			});
			// a store that cannot be opened presents none of the commits it acknowledged
			let must = if spec.is_power() { ob.durable } else { ob.acked };
			if must > 0 {
				out.push(Finding {
					property: "C02",
					class: format!("acked-commit-unreadable:recovery-open-fails:{pm}"),
					text: format!("{ctx} => open: {e} ({must} acknowledged commits cannot be read)"),
				});
			}
			return out;
		}
		Ok(c) => c,
	};
	if let Some(d) = &rec.dangling {
		out.push(Finding {
			property: "C11",
			class: format!("recovered-store-points-into-missing-vlog-file:{pm}"),
			text: format!("{ctx} => {d}"),
		});
	}
	// model with the first generation's recovered content as base
	let with_base = |p: usize| -> BTreeMap<Vec<u8>, Vec<u8>> {
		let mut s = base.clone();
		for t in &model.commits[..p] {
			for w in t {
				if w.kind.is_tombstone() {
					s.remove(&w.key);
				} else {
					s.insert(w.key.clone(), w.value.clone());
				}
			}
		}
		s
	};
	let got: BTreeMap<Vec<u8>, Vec<u8>> = content.iter().cloned().collect();
	let must = if spec.is_power() { ob.durable } else { ob.acked };
	let matched = (0..=ob.begun.max(ob.acked)).rev().find(|p| with_base(*p) == got);
	// C03: prefix consistency
	if matched.is_none() {
		// which kind of inconsistency? find a transaction that is partially present
		let mut torn = None;
		for (i, t) in model.commits.iter().enumerate() {
			if t.len() > 1 {
				let present: Vec<bool> = t.iter().map(|w| got.get(&w.key) == Some(&w.value)).collect();
				if present.iter().any(|x| *x) && present.iter().any(|x| !*x) {
					torn = Some(i);
				}
			}
		}
		let class = match torn {
			Some(i) if rotated_commits.contains(&i) => format!("torn-transaction-at-rotation:{pm}"),
			Some(_) => format!("torn-transaction:{pm}"),
			None => format!("not-a-prefix:{pm}:{sit}"),
		};
		out.push(Finding {
			property: "C03",
			class,
			text: format!("{ctx} => recovered {:?} matches no prefix of the commit order", content.iter().map(|(k, v)| format!("{}={}", String::from_utf8_lossy(k), String::from_utf8_lossy(v))).collect::<Vec<_>>()),
		});
	}
	// C02: durability
	{
		// per-key criterion relative to `base`
		let mut full = KvModel::default();
		full.commits.push(base.iter().map(|(k, v)| Write::new(Kind::Set, k, v)).collect());
		full.commits.extend(model.commits.iter().cloned());
		if let Some(v) = durability_violation(&full, content, must + 1) {
			// diagnose: is the lost commit the one that triggered a rotation?
			let lost_idx = v.split("commit #Some(").nth(1).and_then(|s| s.split(')').next()).and_then(|s| s.parse::<usize>().ok()).map(|i| i.saturating_sub(1));
			let class = match lost_idx {
				Some(i) if rotated_commits.contains(&i) => format!("acked-commit-lost:rotation-trigger:{pm}"),
				_ if gen > 1 => format!("acked-commit-lost:after-recovery:{pm}:{sit}"),
				_ => format!("acked-commit-lost:{pm}:{sit}"),
			};
			out.push(Finding {
				property: "C02",
				class,
				text: format!("{ctx} => {v}"),
			});
		}
	}
	// C07: idempotent recovery, probe, third open
	if let Some(o2) = &rec.open2 {
		match o2 {
			Err(e) => out.push(Finding {
				property: "C07",
				class: format!("second-recovery-fails:{}", crate::props::norm_msg(e)),
				text: format!("{ctx} => second open: {e}"),
			}),
			Ok(c2) => {
				if c2 != content {
					out.push(Finding {
						property: "C07",
						class: format!("second-recovery-differs:{pm}"),
						text: format!("{ctx} => first open {} keys, second open {} keys: {:?} vs {:?}", content.len(), c2.len(), content.iter().map(|(k, v)| format!("{}={}", String::from_utf8_lossy(k), String::from_utf8_lossy(v))).collect::<Vec<_>>(), c2.iter().map(|(k, v)| format!("{}={}", String::from_utf8_lossy(k), String::from_utf8_lossy(v))).collect::<Vec<_>>()),
					});
				}
			}
		}
	}
	if let Some(Err(e)) = &rec.probe {
		out.push(Finding {
			property: "C07",
			class: format!("probe-after-recovery:{}", crate::props::norm_msg(e).chars().take(60).collect::<String>()),
			text: format!("{ctx} => {e}"),
		});
	}
	if let (Some(o3), Some(Ok(()))) = (&rec.open3, &rec.probe) {
		match o3 {
			Err(e) => out.push(Finding {
				property: "C07",
				class: format!("third-open-fails:{}", crate::props::norm_msg(e)),
				text: format!("{ctx} => open after probe+flush+close: {e}"),
			}),
			Ok(c3) => {
				let mut exp: BTreeMap<Vec<u8>, Vec<u8>> = got.clone();
				exp.insert(b"zz-probe".to_vec(), b"probe".to_vec());
				exp.insert(b"a".to_vec(), b"probe-a".to_vec());
				let g3: BTreeMap<Vec<u8>, Vec<u8>> = c3.iter().cloned().collect();
				if g3 != exp {
					out.push(Finding {
						property: "C07",
						class: "post-recovery-commit-shadowed-or-lost".into(),
						text: format!("{ctx} => after probe commit, flush, close, open: {:?}, expected {:?}", g3.iter().map(|(k, v)| format!("{}={}", String::from_utf8_lossy(k), String::from_utf8_lossy(v))).collect::<Vec<_>>(), exp.iter().map(|(k, v)| format!("{}={}", String::from_utf8_lossy(k), String::from_utf8_lossy(v))).collect::<Vec<_>>()),
					});
				}
			}
		}
	}
	let _ = matching_prefix;
	out
}

// ---------------------------------------------------------------------------
// Workload families
// ---------------------------------------------------------------------------

fn tok(i: usize) -> Vec<u8> {
	format!("val{i}").into_bytes()
}

/// All op lists of length 1..=maxlen over the crash alphabet.
pub fn short_workloads(maxlen: usize) -> Vec<Vec<Wop>> {
	let mut out = vec![];
	fn alphabet(i: usize) -> Vec<Wop> {
		vec![
			Wop::W(vec![Write::set(b"a", &tok(i))], false),
			Wop::W(vec![Write::set(b"b", &tok(i))], true),
			Wop::W(vec![Write::set(b"a", &tok(i)), Write::set(b"b", &tok(i))], false),
			Wop::W(vec![Write::new(Kind::Delete, b"a", b"")], false),
			Wop::P(Phys::FlushAll),
			Wop::P(Phys::Compact),
			Wop::P(Phys::Rotate),
			Wop::P(Phys::Drain),
			Wop::P(Phys::Reopen),
			Wop::Sync,
		]
	}
	fn rec(maxlen: usize, cur: &mut Vec<Wop>, out: &mut Vec<Vec<Wop>>) {
		if !cur.is_empty() {
			// a workload must end with something that can be lost: skip lists without any commit
			if cur.iter().any(|o| matches!(o, Wop::W(..))) {
				out.push(cur.clone());
			}
		}
		if cur.len() == maxlen {
			return;
		}
		for op in alphabet(cur.len()) {
			// physical ops on an empty store are no-ops
			if cur.is_empty() && !matches!(op, Wop::W(..)) {
				continue;
			}
			cur.push(op);
			rec(maxlen, cur, out);
			cur.pop();
		}
	}
	rec(maxlen, &mut vec![], &mut out);
	out.sort_by_key(|l| l.len());
	out
}

/// Synced-flush family: an eventual commit made durable by a later `flush_wal(true)`, after every
/// kind of event that may have switched the WAL segment.
pub fn sync_workloads() -> Vec<Vec<Wop>> {
	let first = [Wop::W(vec![Write::set(b"a", &tok(0))], false), Wop::W(vec![Write::set(b"b", &tok(0))], true)];
	let middle = [Wop::P(Phys::FlushAll), Wop::P(Phys::Rotate), Wop::P(Phys::Reopen), Wop::P(Phys::Compact), Wop::P(Phys::Drain), Wop::Sync, Wop::W(vec![Write::set(b"b", &tok(1))], true)];
	let last = [
		Wop::W(vec![Write::set(b"a", &tok(2))], false),
		Wop::W(vec![Write::set(b"a", &tok(2)), Write::set(b"b", &tok(2))], false),
		Wop::W(vec![Write::new(Kind::Delete, b"a", b"")], false),
	];
	let mut out = vec![];
	for x in &first {
		for y in &middle {
			for z in &last {
				out.push(vec![x.clone(), y.clone(), z.clone(), Wop::Sync]);
				out.push(vec![x.clone(), y.clone(), z.clone(), Wop::Sync, Wop::W(vec![Write::set(b"c", &tok(4))], false)]);
			}
		}
	}
	out
}

/// Rotation families: many small commits against a tiny memtable so that the arena fills up
/// inside `apply` (the commit that triggers the rotation is marked by the trace).
pub fn rotation_workloads(tier: Tier) -> Vec<(OptSet, Vec<Wop>)> {
	let opt = OptSet::base("L2-memtable4k").memtable_size(4096);
	let mut out = vec![];
	let tails: Vec<Vec<Wop>> = vec![
		vec![],
		vec![Wop::P(Phys::FlushOldest)],
		vec![Wop::P(Phys::FlushOldest), Wop::P(Phys::Drain)],
		vec![Wop::P(Phys::Drain)],
		vec![Wop::P(Phys::Drain), Wop::P(Phys::Compact)],
		// eventual commits after the rotation, then a synced WAL flush: they are durable from there on
		vec![Wop::W(vec![Write::set(b"zz1", b"after-rotation-1")], false), Wop::W(vec![Write::set(b"zz2", b"after-rotation-2")], false), Wop::Sync, Wop::W(vec![Write::set(b"zz3", b"after-sync")], false)],
	];
	// the rotation-triggering commit as the LAST commit (whatever its index is: every length in a
	// window around it), Immediate, followed by the flush of the rotated memtable and the
	// clean-up of its segment: nothing after it syncs the new segment again
	{
		let (lo, hi) = if tier == Tier::Quick { (18usize, 28usize) } else { (12, 40) };
		for n in lo..=hi {
			for imm_all in [true, false] {
				let mut ops = vec![];
				for i in 0..n {
					ops.push(Wop::W(vec![Write::set(format!("k{i:03}").as_bytes(), &tok(i))], imm_all || i + 1 == n));
				}
				ops.push(Wop::P(Phys::FlushOldest));
				ops.push(Wop::P(Phys::Drain));
				out.push((opt.clone(), ops));
			}
		}
	}
	// (commits, three-key transactions?, every commit Immediate?) - with every commit Immediate the
	// commit that triggers the rotation is an Immediate one, whatever its index
	let shapes: Vec<(usize, bool, bool)> = if tier == Tier::Quick { vec![(70, false, false), (30, true, false), (70, false, true)] } else { vec![(70, false, false), (30, true, false), (140, false, false), (60, true, false), (70, false, true), (30, true, true)] };
	for (n, multi, all_imm) in shapes {
		for tail in &tails {
			if all_imm && tail.len() > 2 {
				continue;
			}
			let mut ops = vec![];
			for i in 0..n {
				if multi {
					ops.push(Wop::W(
						vec![Write::set(format!("k{i:03}x").as_bytes(), &tok(i)), Write::set(format!("k{i:03}y").as_bytes(), &tok(i)), Write::set(format!("k{i:03}z").as_bytes(), &tok(i))],
						all_imm,
					));
				} else {
					ops.push(Wop::W(vec![Write::set(format!("k{i:03}").as_bytes(), &tok(i))], all_imm || i % 5 == 4));
				}
			}
			ops.extend(tail.iter().cloned());
			out.push((opt.clone(), ops));
		}
	}
	out
}

/// Which commits triggered a memtable rotation inside apply: a WAL segment is created between the
/// commit's begin and ack marks.
fn rotation_triggers(trace: &[Ev]) -> HashSet<usize> {
	let mut out = HashSet::new();
	let mut cur: Option<usize> = None;
	for e in trace {
		match e {
			Ev::Mark(m) => {
				if let Some(r) = m.strip_prefix("begin:") {
					cur = r.parse().ok();
				} else if m.starts_with("ack:") || m.starts_with("nack:") {
					cur = None;
				}
			}
			Ev::Create(p, _) if p.starts_with("wal/") => {
				if let Some(i) = cur {
					out.insert(i);
				}
			}
			_ => {}
		}
	}
	out
}

#[derive(Default)]
pub struct CrashStats {
	pub workloads: u64,
	pub crash_points: u64,
	pub specs: u64,
	pub distinct_images: u64,
	pub recoveries: u64,
	pub replayed: u64,
	pub gen2_runs: u64,
}

struct WlResult {
	findings: Vec<(Finding, J)>,
	points: u64,
	specs: u64,
	images: Vec<(u64, Fs, BTreeMap<Vec<u8>, Vec<u8>>, u8)>,
	recoveries: u64,
	nontrivial: u64,
	rotations: u64,
}

struct TracedWl {
	wl: Workload,
	tr: crate::crashx::Traced,
	base: BTreeMap<Vec<u8>, Vec<u8>>,
}

/// Phase 1: run the workload in a traced worker (spawns a subprocess).
fn trace_workload(wl: &Workload, init: Option<&(Fs, BTreeMap<Vec<u8>, Vec<u8>>)>) -> Result<TracedWl, String> {
	let tr = run_traced(wl, init.map(|i| &i.0), None)?;
	Ok(TracedWl {
		wl: wl.clone(),
		tr,
		base: init.map(|i| i.1.clone()).unwrap_or_default(),
	})
}

/// Phase 2: enumerate, recover and judge the images of one traced workload (no subprocesses:
/// a forked child briefly inherits open LOCK descriptors, which would make a concurrent
/// re-open of the same directory fail spuriously).
#[allow(clippy::too_many_arguments)]
fn judge_workload(t: &TracedWl, gen: usize, power: bool, v2: bool, deep: bool, seen: &Mutex<HashSet<u64>>, budget: &Budget) -> WlResult {
	let wl = &t.wl;
	let tr = &t.tr;
	let commits = commits_of(&wl.ops);
	let mut model = KvModel::default();
	for (ws, _) in &commits {
		model.commits.push(ws.clone());
	}
	let base = &t.base;
	let rot = rotation_triggers(&tr.trace);
	let specs = enumerate_specs(&tr.init, &tr.trace, power, v2);
	let points = specs.iter().filter(|s| s.kind == "process").count() as u64;
	let mut res = WlResult {
		findings: vec![],
		points,
		specs: specs.len() as u64,
		images: vec![],
		recoveries: 0,
		nontrivial: 0,
		rotations: rot.len() as u64,
	};
	// recover each distinct image once; judge every spec against its recovery
	let mut cache: HashMap<u64, Recovered> = HashMap::new();
	let mut first_class: HashSet<String> = HashSet::new();
	for spec in &specs {
		if budget.exhausted() {
			break;
		}
		let fs = build_image(&tr.init, &tr.trace, spec);
		let h = fs.hash();
		if !cache.contains_key(&h) {
			let is_new_globally = seen.lock().unwrap().insert(h ^ crate::util::fnv64(wl.opt.name.as_bytes()));
			let rec = recover(&fs, &wl.opt, deep);
			res.recoveries += 1;
			if is_new_globally {
				if let Ok(c) = &rec.open1 {
					// a recovery that had something to replay or repair
					if fs.names.keys().any(|p| p.starts_with("wal/")) {
						res.nontrivial += 1;
					}
					// generation-2 priority: images whose commit-log tail is torn inside a record's
					// payload first (their recovery has to repair before it appends), then other
					// torn images, then clean power-loss images, then process-crash images
					let prio = match (&spec.kind[..], &spec.v2) {
						("power-v2", Some((o, _, tear, _))) => {
							let in_wal = fs.names.iter().any(|(p, id)| id == o && p.starts_with("wal/"));
							if in_wal && *tear > 7 {
								0
							} else {
								1
							}
						}
						("power-v0", _) => 2,
						_ => 3,
					};
					res.images.push((h, fs.clone(), c.iter().cloned().collect(), prio));
				}
			}
			cache.insert(h, rec);
		}
		let rec = &cache[&h];
		for f in judge(wl, &tr.trace, spec, rec, &model, base, gen, &rot) {
			let first = first_class.insert(format!("{}|{}", f.property, f.class));
			let replay = if first {
				json!({"engine": "crash", "generation": gen, "workload": wl.to_json(), "image": spec.to_json(), "note": "gen>1 replays need the first-generation image and are re-derived by the check"})
			} else {
				J::Null
			};
			res.findings.push((f, replay));
		}
	}
	res
}

pub struct CrashPlan {
	pub workloads: Vec<Workload>,
	pub power: bool,
	pub v2: bool,
	pub gen2_cap: usize,
}

/// Value-log family (C11): values on both sides of the separation threshold, 64-byte log files.
pub fn vlog_workloads(maxlen: usize) -> Vec<Vec<Wop>> {
	let mut out = vec![];
	fn big(i: usize, n: usize) -> Vec<u8> {
		let mut v = format!("{i:02}").into_bytes();
		while v.len() < n {
			v.push(b'a' + (v.len() % 26) as u8);
		}
		v
	}
	fn alphabet(i: usize) -> Vec<Wop> {
		vec![
			Wop::W(vec![Write::set(b"a", &big(i, 200))], true),
			Wop::W(vec![Write::set(b"b", &big(i, 9))], false),
			Wop::W(vec![Write::set(b"a", &big(i, 9)), Write::set(b"b", &big(i, 70))], true),
			Wop::W(vec![Write::new(Kind::Delete, b"a", b"")], true),
			Wop::P(Phys::FlushAll),
			Wop::P(Phys::Compact),
			Wop::P(Phys::Reopen),
		]
	}
	fn rec(maxlen: usize, cur: &mut Vec<Wop>, out: &mut Vec<Vec<Wop>>) {
		// only lists that flush something are interesting here
		if cur.iter().any(|o| matches!(o, Wop::P(Phys::FlushAll) | Wop::P(Phys::Reopen))) {
			out.push(cur.clone());
		}
		if cur.len() == maxlen {
			return;
		}
		for op in alphabet(cur.len()) {
			if cur.is_empty() && !matches!(op, Wop::W(..)) {
				continue;
			}
			cur.push(op);
			rec(maxlen, cur, out);
			cur.pop();
		}
	}
	rec(maxlen, &mut vec![], &mut out);
	out.sort_by_key(|l| l.len());
	out
}

pub fn plan(tier: Tier, focus: &str) -> CrashPlan {
	let mut workloads = vec![];
	let base = OptSet::base("L2");
	if focus == "C11" {
		let maxlen = if tier == Tier::Quick { 3 } else { 5 };
		let mut opts = vec![OptSet::base("L2-vlog8-64-cache0").with_vlog(8, 64).cache(0)];
		if tier == Tier::Thorough {
			opts.push(OptSet::base("L2-versioned-index-vlog64").versioned(0, true).with_vlog(0, 64));
		}
		// histories in which a compaction makes a value-log file obsolete and removes it: crash
		// points between the removal and the manifest switch matter
		let big = |tag: &str| -> Vec<u8> {
			let mut v = tag.as_bytes().to_vec();
			v.resize(150, b'q');
			v
		};
		let obsolete: Vec<Vec<Wop>> = vec![
			vec![Wop::W(vec![Write::set(b"a", &big("a1"))], true), Wop::P(Phys::FlushAll), Wop::W(vec![Write::set(b"a", &big("a2"))], true), Wop::P(Phys::FlushAll), Wop::P(Phys::Compact)],
			vec![Wop::W(vec![Write::set(b"a", &big("a1")), Write::set(b"b", &big("b1"))], true), Wop::P(Phys::FlushAll), Wop::W(vec![Write::new(Kind::Delete, b"a", b""), Write::set(b"b", &big("b2"))], true), Wop::P(Phys::FlushAll), Wop::P(Phys::Compact), Wop::P(Phys::Compact)],
		];
		for opt in &opts {
			for ops in &obsolete {
				workloads.push(Workload {
					opt: opt.clone(),
					ops: ops.clone(),
					forced_height: 1,
				});
			}
		}
		for opt in opts {
			for ops in vlog_workloads(maxlen) {
				workloads.push(Workload {
					opt: opt.clone(),
					ops,
					forced_height: 1,
				});
			}
		}
		return CrashPlan {
			workloads,
			power: true,
			v2: true,
			gen2_cap: if tier == Tier::Quick { 40 } else { 1500 },
		};
	}
	// C07 runs this after its sequential part: its quick tier uses the shorter family
	let maxlen = match (tier, focus) {
		(Tier::Quick, "C07") => 2,
		(Tier::Quick, _) => 3,
		_ => 4,
	};
	for ops in short_workloads(maxlen) {
		workloads.push(Workload {
			opt: base.clone(),
			ops,
			forced_height: 1,
		});
	}
	for (opt, ops) in rotation_workloads(tier) {
		workloads.push(Workload {
			opt,
			ops,
			forced_height: 1,
		});
	}
	// close() with flush-on-close while two rotated memtables are queued: crash points inside the
	// shutdown flushes (the order in which they reach the manifest matters)
	{
		let opt = OptSet::base("L2-flush-on-close").flush_close(true);
		let t = |k: &[u8], i: usize| Wop::W(vec![Write::set(k, &tok(i)), Write::set(b"counter", &tok(i))], false);
		workloads.push(Workload {
			opt: opt.clone(),
			ops: vec![t(b"a", 0), Wop::P(Phys::Rotate), t(b"b", 1), Wop::P(Phys::Rotate), t(b"c", 2), Wop::P(Phys::Reopen), t(b"d", 3)],
			forced_height: 1,
		});
		workloads.push(Workload {
			opt,
			ops: vec![t(b"a", 0), Wop::P(Phys::Rotate), t(b"a", 1), Wop::P(Phys::Rotate), Wop::W(vec![Write::new(Kind::Delete, b"a", b""), Write::set(b"counter", &tok(2))], false), Wop::P(Phys::Reopen)],
			forced_height: 1,
		});
	}
	if focus != "C07" || tier == Tier::Thorough {
		for ops in sync_workloads() {
			workloads.push(Workload {
				opt: base.clone(),
				ops,
				forced_height: 1,
			});
		}
	}
	if tier == Tier::Thorough {
		// the short family again on other option sets, length <= 3
		for opt in [OptSet::base("L3-vlog8-64").levels(3).with_vlog(8, 64), OptSet::base("L2-versioned-index").versioned(0, true), OptSet::base("L2-flush-on-close").flush_close(true)] {
			for ops in short_workloads(3) {
				workloads.push(Workload {
					opt: opt.clone(),
					ops,
					forced_height: 1,
				});
			}
		}
	}
	CrashPlan {
		workloads,
		power: true,
		v2: true,
		gen2_cap: if tier == Tier::Quick { 150 } else { 3000 },
	}
}

/// Run the crash enumeration and report the findings of `property` only.
pub fn check(property: &'static str, tier: Tier) -> i32 {
	let mut report = Report::new(property, tier, "fault_enumeration");
	let code = run_into(&mut report, property, tier, if tier == Tier::Quick { 45.0 } else { 1000.0 });
	if code != 0 {
		return code;
	}
	if property == "C02" {
		// schedule axis: two concurrent committers against a nearly full memtable plus a background
		// flusher/compactor; process crash after every explored schedule
		let code = crate::props::sched::run_into(&mut report, "C02", tier, if tier == Tier::Quick { 12.0 } else { 300.0 });
		if code != 0 {
			return code;
		}
	}
	report.finish()
}

/// Shared body so that C07 can merge the crash part with its sequential part.
pub fn run_into(report: &mut Report, property: &'static str, tier: Tier, cap_s: f64) -> i32 {
	if !std::path::Path::new(crate::crashx::SHIM).exists() {
		eprintln!("machinery: {} missing (run /verif/shim/build.sh)", crate::crashx::SHIM);
		return 2;
	}
	let budget = Budget::new(cap_s);
	let plan = plan(tier, property);
	let seen: Mutex<HashSet<u64>> = Mutex::new(HashSet::new());
	let stats = Mutex::new(CrashStats::default());
	let findings: Mutex<Vec<(usize, Finding, J)>> = Mutex::new(vec![]);
	let gen2_seeds: Mutex<Vec<(OptSet, Fs, BTreeMap<Vec<u8>, Vec<u8>>, u8)>> = Mutex::new(vec![]);
	let skipped = std::sync::atomic::AtomicU64::new(0);
	let machinery: Mutex<Option<String>> = Mutex::new(None);
	let nontrivial = std::sync::atomic::AtomicU64::new(0);
	// generation 1 gets 70% of the time
	let gen1_budget_s = cap_s * 0.7;
	// phase 1: trace every workload (subprocesses), phase 2: recover + judge (no subprocesses)
	let traced: Mutex<Vec<(usize, TracedWl)>> = Mutex::new(vec![]);
	plan.workloads.par_iter().enumerate().for_each(|(i, wl)| {
		if budget.elapsed() > gen1_budget_s * 0.3 {
			skipped.fetch_add(1, std::sync::atomic::Ordering::Relaxed);
			return;
		}
		match trace_workload(wl, None) {
			Err(e) => *machinery.lock().unwrap() = Some(format!("workload {}: {e}", wops_short(&wl.ops))),
			Ok(t) => traced.lock().unwrap().push((i, t)),
		}
	});
	let mut traced = traced.into_inner().unwrap();
	traced.sort_by_key(|t| t.0);
	let rotations = std::sync::atomic::AtomicU64::new(0);
	let per_workload_seeds = (plan.gen2_cap * 4 / plan.workloads.len().max(1)).max(6);
	traced.par_iter().for_each(|(i, t)| {
		if budget.elapsed() > gen1_budget_s {
			skipped.fetch_add(1, std::sync::atomic::Ordering::Relaxed);
			return;
		}
		let mut r = judge_workload(t, 1, plan.power, plan.v2, true, &seen, &budget);
		// bound the memory held for generation-2 seeds: per workload keep the images whose recovery
		// had most to repair (torn first), deterministically
		r.images.sort_by_key(|im| (im.3, im.0));
		let distinct_here = r.images.len() as u64;
		r.images.truncate(per_workload_seeds);
		let mut s = stats.lock().unwrap();
		s.workloads += 1;
		s.crash_points += r.points;
		s.specs += r.specs;
		s.recoveries += r.recoveries;
		s.distinct_images += distinct_here;
		drop(s);
		rotations.fetch_add(r.rotations, std::sync::atomic::Ordering::Relaxed);
		nontrivial.fetch_add(r.nontrivial, std::sync::atomic::Ordering::Relaxed);
		let mut f = findings.lock().unwrap();
		for (fi, rp) in r.findings {
			f.push((*i, fi, rp));
		}
		drop(f);
		let mut g = gen2_seeds.lock().unwrap();
		for (_, fs, content, prio) in r.images {
			g.push((t.wl.opt.clone(), fs, content, prio));
		}
	});
	drop(traced);
	if let Some(e) = machinery.into_inner().unwrap() {
		eprintln!("machinery: {e}");
		return 2;
	}
	// generation 2: crash -> recover -> commit -> crash, from distinct recovered images
	let mut seeds = gen2_seeds.into_inner().unwrap();
	// torn images first (their recovery repairs the log), then by size
	let mut keyed: Vec<(u64, (OptSet, Fs, BTreeMap<Vec<u8>, Vec<u8>>, u8))> = seeds.drain(..).map(|s| (s.1.hash(), s)).collect();
	keyed.sort_by_key(|(h, s)| (s.3, s.1.names.len(), *h));
	keyed.dedup_by_key(|(h, _)| *h);
	let mut seeds: Vec<_> = keyed.into_iter().map(|(_, s)| s).collect();
	let total_seeds = seeds.len();
	seeds.truncate(plan.gen2_cap);
	let gen2_ops = vec![
		Wop::W(vec![Write::set(b"a", b"g2-a")], false),
		Wop::W(vec![Write::set(b"b", b"g2-b")], true),
		Wop::P(Phys::Reopen),
		Wop::W(vec![Write::set(b"a", b"g2-a2")], false),
	];
	let gen2_done = std::sync::atomic::AtomicU64::new(0);
	let machinery2: Mutex<Option<String>> = Mutex::new(None);
	let traced2: Mutex<Vec<(usize, TracedWl)>> = Mutex::new(vec![]);
	seeds.par_iter().enumerate().for_each(|(i, (opt, fs, content, _))| {
		if budget.exhausted() {
			return;
		}
		let wl = Workload {
			opt: opt.clone(),
			ops: gen2_ops.clone(),
			forced_height: 1,
		};
		match trace_workload(&wl, Some(&(fs.clone(), content.clone()))) {
			Err(e) => {
				// the first-generation image may be one that does not open at all: that is judged in generation 1
				if !e.contains("open_error") && !e.contains("worker produced no result") {
					*machinery2.lock().unwrap() = Some(format!("gen2 seed {i}: {e}"));
				}
			}
			Ok(t) => traced2.lock().unwrap().push((i, t)),
		}
	});
	let traced2 = traced2.into_inner().unwrap();
	traced2.par_iter().for_each(|(i, t)| {
		if budget.exhausted() {
			return;
		}
		let r = judge_workload(t, 2, false, false, false, &seen, &budget);
		gen2_done.fetch_add(1, std::sync::atomic::Ordering::Relaxed);
		let mut s = stats.lock().unwrap();
		s.gen2_runs += 1;
		s.crash_points += r.points;
		s.specs += r.specs;
		s.recoveries += r.recoveries;
		drop(s);
		let mut f = findings.lock().unwrap();
		for (fi, rp) in r.findings {
			f.push((1_000_000 + i, fi, rp));
		}
	});
	drop(traced2);
	if let Some(e) = machinery2.into_inner().unwrap() {
		eprintln!("machinery: {e}");
		return 2;
	}
	let s = stats.into_inner().unwrap();
	let mut findings = findings.into_inner().unwrap();
	findings.sort_by_key(|f| f.0);
	let mut per_class: BTreeMap<String, u64> = BTreeMap::new();
	let mut other_props: BTreeMap<String, u64> = BTreeMap::new();
	let mut seen_class = HashSet::new();
	for (_, mut f, rp) in findings {
		if property == "C11" {
			// on value-log workloads every recovery failure is a C11 failure
			f.class = format!("crash:{}:{}", f.property, f.class);
			f.property = "C11";
		}
		if f.property != property {
			*other_props.entry(format!("{}:{}", f.property, f.class)).or_default() += 1;
			continue;
		}
		*per_class.entry(f.class.clone()).or_default() += 1;
		let first = seen_class.insert(f.class.clone());
		report.violations.push(Violation {
			class: f.class,
			what: if first { f.text } else { String::new() },
			replay: if first && !rp.is_null() { rp } else { J::Null },
		});
	}
	report.violations.sort_by_key(|v| v.what.is_empty());
	let sk = skipped.load(std::sync::atomic::Ordering::Relaxed);
	report.add_u("evaluations", s.specs);
	report.add_u("distinct_nontrivial", nontrivial.load(std::sync::atomic::Ordering::Relaxed));
	report.set("crash_rule", json!("workloads = all op lists of length <= L over {set a, set b (Immediate), set a+b, delete a, flush-all, compaction, rotate, drain, reopen, flush_wal(sync)} + synced-flush family ([commit, segment-switching event, eventual commit, flush_wal(sync)(, commit)]) + rotation families (tiny memtable, single- and 3-key transactions, tails of flush-oldest/drain/compact/eventual commits + flush_wal(sync)); crash points = after every traced file-system call; images = process crash, power loss V0 (all unsynced data dropped), V2 (one file keeps each proper prefix of its unsynced writes, last kept write torn at 1, half, len-1 bytes; others dropped/kept); every distinct image is recovered once (open, crash, open, probe commit, flush, close, open); non-trivial = distinct images containing a WAL that recovery had to replay; generation 2 = a fixed 4-op workload traced from distinct recovered images, process crash points"));
	if report.coverage.get("rule").is_none() {
		report.set("rule", report.coverage.get("crash_rule").cloned().unwrap());
	}
	report.set("workloads", json!(s.workloads));
	report.set("workloads_skipped_by_time_cap", json!(sk));
	report.set("crash_points", json!(s.crash_points));
	report.set("image_specs", json!(s.specs));
	report.set("distinct_images_recovered", json!(s.recoveries));
	report.set("gen2_seeds_total", json!(total_seeds));
	report.set("gen2_runs", json!(s.gen2_runs));
	report.set("commits_that_triggered_a_rotation", json!(rotations.load(std::sync::atomic::Ordering::Relaxed)));
	if report.coverage.get("samples").is_none() {
		report.set("samples", json!([wops_short(&plan.workloads[plan.workloads.len() / 3].ops), "power-v2@57 obj#4 keep=2 tear=17 others=dropped", wops_short(&gen2_ops)]));
	}
	let ex = sk == 0 && !budget.exhausted();
	report.set("gen2_covers_all_seeds", json!(total_seeds <= plan.gen2_cap));
	let prev = report.coverage.get("exhaustive").and_then(|v| v.as_bool()).unwrap_or(true);
	report.set("exhaustive", json!(prev && ex));
	report.set("crash_failures_per_class", json!(per_class));
	report.set("findings_of_other_properties_seen", json!(other_props));
	report.assume("crash model as stated in C02: process crash keeps every completed call; power loss keeps, per file, everything up to its last fsync plus a prefix of the later writes (last one possibly torn); namespace operations are kept in order");
	report.assume("the tracer self-check (replaying the full trace reproduces the real directory byte for byte) passed for every traced run, else the check exits 2");
	0
}

/// Replay one (workload, image) pair: re-trace the workload, rebuild the image, recover, judge.
pub fn replay(property: &str, r: &J) -> i32 {
	if r["generation"].as_u64().unwrap_or(1) != 1 {
		eprintln!("machinery: generation-2 findings are re-derived by running the check (the first-generation image is not stored)");
		return 2;
	}
	let wl = Workload::from_json(&r["workload"]);
	let spec = ImageSpec::from_json(&r["image"]);
	println!("replaying {property} [{}] {} | {}", wl.opt.name, wops_short(&wl.ops), spec.short());
	let run = || -> Result<Vec<String>, String> {
		let t = trace_workload(&wl, None)?;
		let mut spec = spec.clone();
		spec.point = spec.point.min(t.tr.trace.len());
		let fs = build_image(&t.tr.init, &t.tr.trace, &spec);
		if std::env::var("VERIF_DEBUG").is_ok() {
			for (i, e) in t.tr.trace.iter().enumerate().take(spec.point) {
				eprintln!("  ev{i}: {}", e.short());
			}
			for (p, o) in &fs.names {
				eprintln!("  image file {p}: {} bytes", fs.data.get(o).map(|d| d.len()).unwrap_or(0));
			}
		}
		let rec = recover(&fs, &wl.opt, true);
		let mut model = KvModel::default();
		for (ws, _) in commits_of(&wl.ops) {
			model.commits.push(ws);
		}
		let rot = rotation_triggers(&t.tr.trace);
		Ok(judge(&wl, &t.tr.trace, &spec, &rec, &model, &BTreeMap::new(), 1, &rot).into_iter().filter(|f| f.property == property || property == "C11").map(|f| if property == "C11" { format!("class=crash:{}:{} {}", f.property, f.class, f.text) } else { format!("class={} {}", f.class, f.text) }).collect())
	};
	let a = run();
	let b = run();
	match (a, b) {
		(Ok(a), Ok(b)) => {
			let ca: Vec<&str> = a.iter().map(|s| s.split(' ').next().unwrap_or("")).collect();
			let cb: Vec<&str> = b.iter().map(|s| s.split(' ').next().unwrap_or("")).collect();
			if ca != cb {
				eprintln!("machinery: replay not deterministic: {ca:?} vs {cb:?}");
				return 2;
			}
			if a.is_empty() {
				println!("replay passed: no violation");
				0
			} else {
				println!("VIOLATION property={property} replay=<this file>");
				for l in a {
					println!("  {}", l.chars().take(600).collect::<String>());
				}
				1
			}
		}
		(Err(e), _) | (_, Err(e)) => {
			eprintln!("machinery: {e}");
			2
		}
	}
}
