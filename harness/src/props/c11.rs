//! C11 — separated large values stay intact and reachable.
//!
//! World sequences on value-log option sets (threshold 8, 64-byte files so that the log rotates
//! inside a single flush; versioning = every value separated): commits whose values have every
//! size around the threshold (0, 7, 8, 9, 200 bytes), overwrites and deletes that make files
//! obsolete, flush / compaction / drain / reopen in every order, and up to two long-lived readers
//! (snapshot, open cursor) held across the physical operations whose clean-up could remove files.
//! Oracle: every value read by every observer (fresh transaction, each reader, each cursor) is
//! byte-identical to the model; any read error (dangling pointer, missing file, header mismatch)
//! is a violation. Power-loss images of value-log workloads are part of C02/C03/C07's thorough tier.

use serde_json::json;

use crate::model::Kind;
use crate::props::c01::{generate, Grammar};
use crate::props::{classify_world_failure, run_world_space, SpaceStats};
use crate::util::{Budget, Report, Tier};
use crate::world::{ops_short, Op, OptSet, Phys, WorldFailure};

pub const PROBE: [&[u8]; 3] = [b"a", b"b", b"c"];

fn grammars(tier: Tier) -> Vec<Grammar> {
	let no_reader = Grammar {
		name: "sizes-no-reader",
		max_len: if tier == Tier::Quick { 5 } else { 6 },
		max_w: 3,
		max_p: 3,
		max_r: 0,
		writes: vec![(Kind::Set, b"a"), (Kind::Set, b"b"), (Kind::Delete, b"a")],
		phys: vec![Phys::FlushAll, Phys::Compact, Phys::Reopen],
		max_readers: 0,
		cursors: false,
		pending: false,
		ro_readers: false,
		sizes: vec![0, 7, 8, 9, 200],
	};
	let readers = Grammar {
		name: "readers-across-cleanup",
		max_len: if tier == Tier::Quick { 6 } else { 8 },
		max_w: 3,
		max_p: 3,
		max_r: 3,
		writes: vec![(Kind::Set, b"a"), (Kind::Delete, b"a")],
		phys: vec![Phys::FlushAll, Phys::Compact],
		max_readers: 2,
		cursors: true,
		pending: false,
		ro_readers: false,
		sizes: vec![9, 200],
	};
	vec![no_reader, readers]
}

const HIST_BACKENDS: [&str; 2] = ["lsm-vlog64", "index-vlog64"];

fn hist_opt(name: &str) -> OptSet {
	match name {
		"lsm-vlog64" => OptSet::base("versioned-lsm-vlog64-cache0").versioned(0, false).with_vlog(0, 64).cache(0),
		_ => OptSet::base("versioned-index-vlog64-cache0").versioned(0, true).with_vlog(0, 64).cache(0),
	}
}

pub fn replay(r: &serde_json::Value) -> i32 {
	surrealkv::verif::set_forced_height(1);
	if r["engine"] == "c11-sweep" {
		let n = r["n"].as_u64().unwrap_or(1) as usize;
		let idx = r["index"].as_bool().unwrap_or(false);
		return match (size_sweep_case(n, idx), size_sweep_case(n, idx)) {
			(Ok(a), Ok(b)) => {
				if a.as_ref().map(|x| &x.0) != b.as_ref().map(|x| &x.0) {
					eprintln!("machinery: replay not deterministic");
					return 2;
				}
				match a {
					Some((c, t)) => {
						println!("VIOLATION property=C11 replay=<this file>\n  class={c} {t}");
						1
					}
					None => {
						println!("replay passed: no violation");
						0
					}
				}
			}
			(Err(e), _) | (_, Err(e)) => {
				eprintln!("machinery: {e}");
				2
			}
		};
	}
	let hops = crate::props::c10::hops_from_json(&r["hops"]);
	let name = r["backend"].as_str().unwrap_or("index-vlog64").to_string();
	println!("replaying C11 history [{name}] {}", crate::props::c10::hops_str(&hops));
	let once = || crate::util::guarded(|| crate::props::c10::run_history(&hist_opt(&name), &hops));
	let cls = |x: Result<Result<crate::props::c10::Run, String>, String>| -> Result<Option<(String, String)>, String> {
		match x {
			Ok(Ok(run)) => Ok(run.failure),
			Ok(Err(e)) => Err(e),
			Err(p) => Ok(Some(("panic".into(), p))),
		}
	};
	match (cls(once()), cls(once())) {
		(Ok(a), Ok(b)) => {
			if a.as_ref().map(|x| &x.0) != b.as_ref().map(|x| &x.0) {
				eprintln!("machinery: replay not deterministic");
				return 2;
			}
			match a {
				Some((c, t)) => {
					println!("VIOLATION property=C11 replay=<this file>\n  class=history:{name}:{c} {t}");
					1
				}
				None => {
					println!("replay passed: no violation");
					0
				}
			}
		}
		(Err(e), _) | (_, Err(e)) => {
			eprintln!("machinery: {e}");
			2
		}
	}
}

/// One case of the size sweep (see `check`).
fn size_sweep_case(n: usize, index: bool) -> Result<Option<(String, String)>, String> {
	use crate::model::Write;
	use crate::world::World;
	use surrealkv::{Durability, LSMIterator, Mode};
	// short retention: the overwritten versions become stale, so the clean-up has work to do
	let opt = OptSet::base(if index { "sweep-versioned-index-vlog" } else { "sweep-vlog" }).levels(2).cache(0);
	let mut opt = if index { opt.versioned(1, true).with_vlog(0, 4096) } else { opt.with_vlog(8, 4096) };
	opt.memtable = 8 << 20;
	let mut w = World::new(opt, &[])?;
	let val = |round: usize, i: usize| format!("round{round}-value-of-key-{i:05}-{}", "z".repeat(20)).into_bytes();
	for round in 0..2 {
		let ws: Vec<Write> = (0..n).map(|i| Write::set(format!("k{i:05}").as_bytes(), &val(round, i))).collect();
		for chunk in ws.chunks(200) {
			w.commit(chunk, Durability::Eventual)?.map_err(|e| e)?;
		}
		w.clock.advance(1_000_000);
		w.physical(Phys::FlushAll)?;
	}
	w.physical(Phys::Compact)?;
	// right after the clean-up pass that removed the files
	if let Some(m) = w.check_index_pointers() {
		return Ok(Some(("sweep:dangling-index-pointer".into(), format!("after the first compaction: {}: {}", m.query, m.got))));
	}
	w.physical(Phys::Compact)?;
	let _g = w.rt.as_ref().unwrap().enter();
	let txn = w.tree().begin_with_mode(Mode::ReadOnly).map_err(|e| format!("{e}"))?;
	for i in 0..n {
		let k = format!("k{i:05}");
		match txn.get(k.as_bytes()) {
			Ok(Some(v)) if v == val(1, i) => {}
			Ok(o) => return Ok(Some(("sweep:wrong-value".into(), format!("get({k}) = {:?}", o.map(|v| String::from_utf8_lossy(&v).to_string()))))),
			Err(e) => return Ok(Some(("sweep:value-unreadable".into(), format!("get({k}): {e}")))),
		}
	}
	drop(txn);
	drop(_g);
	if let Some(m) = w.check_index_pointers() {
		return Ok(Some(("sweep:dangling-index-pointer".into(), format!("{}: {}", m.query, m.got))));
	}
	let _g = w.rt.as_ref().unwrap().enter();
	let txn = w.tree().begin_with_mode(Mode::ReadOnly).map_err(|e| format!("{e}"))?;
	if index {
		// every version still listed by history must resolve
		let o = surrealkv::HistoryOptions::new().with_tombstones(true);
		let mut it = txn.history_with_options(crate::world::LO, crate::world::HI, &o).map_err(|e| format!("{e}"))?;
		let mut ok = it.seek_first().map_err(|e| format!("history seek_first: {e}"))?;
		let mut listed = 0usize;
		while ok {
			listed += 1;
			if let Err(e) = it.value() {
				return Ok(Some(("sweep:history-version-unreadable".into(), format!("history entry {} ({}@{}): {e}", listed, String::from_utf8_lossy(it.key().user_key()), it.key().timestamp()))));
			}
			ok = match it.next() {
				Ok(b) => b,
				Err(e) => return Ok(Some(("sweep:history-version-unreadable".into(), format!("history next after {listed} entries: {e}")))),
			};
		}
		if std::env::var("VERIF_DEBUG").is_ok() {
			let files: Vec<String> = std::fs::read_dir(w.dir.join("vlog")).map(|d| d.flatten().map(|e| e.file_name().to_string_lossy().to_string()).collect()).unwrap_or_default();
			eprintln!("sweep n={n}: history listed {listed}, vlog files {}: {:?}, removed counter {}", files.len(), files.iter().take(4).collect::<Vec<_>>(), surrealkv::verif::VLOG_FILES_REMOVED.load(std::sync::atomic::Ordering::Relaxed));
		}
		if listed < n {
			return Ok(Some(("sweep:history-lost-current-versions".into(), format!("history lists {listed} entries for {n} keys"))));
		}
	}
	Ok(None)
}

fn classify(f: &WorldFailure, _ops: &[Op], _opt: &OptSet) -> String {
	classify_world_failure(f)
}

pub fn check(tier: Tier) -> i32 {
	surrealkv::verif::set_forced_height(1);
	let mut report = Report::new("C11", tier, "model_checking");
	let budget = Budget::new(if tier == Tier::Quick { 30.0 } else { 1000.0 });
	// no block cache: a cached value would hide a pointer whose file is gone
	let mut opts = vec![OptSet::base("L2-vlog8-64-cache0").with_vlog(8, 64).cache(0), OptSet::base("L2-versioned-vlog64-cache0").versioned(0, false).with_vlog(0, 64).cache(0)];
	if tier == Tier::Thorough {
		opts.push(OptSet::base("L3-vlog8-64").levels(3).with_vlog(8, 64));
		opts.push(OptSet::base("L2-versioned-index-vlog64").versioned(0, true).with_vlog(0, 64));
	}
	let mut stats = SpaceStats::default();
	let mut completed = vec![];
	let mut samples = vec![];
	let mut all_complete = true;
	#[allow(unused_assignments)]
	let _ = ();
	'outer: for g in grammars(tier) {
		let lists = generate(&g);
		samples.push(json!({"grammar": g.name, "count": lists.len(), "example": ops_short(&lists[lists.len() * 2 / 3]).chars().take(300).collect::<String>()}));
		for opt in &opts {
			let done = run_world_space(&mut report, &mut stats, opt, &lists, &PROBE, &budget, &classify);
			if !done {
				all_complete = false;
				break 'outer;
			}
			completed.push(format!("grammar={} len<={} opt={} sequences={}", g.name, g.max_len, opt.name, lists.len()));
		}
	}
	// --- deep-level part: tables pushed below an empty level (3 and 4 levels), then more flushes /
	// compactions whose value-log clean-up must still see the files those deep tables point into ---
	if all_complete {
		let deep = Grammar {
			name: "deep-levels",
			max_len: if tier == Tier::Quick { 7 } else { 9 },
			max_w: 3,
			max_p: if tier == Tier::Quick { 5 } else { 6 },
			max_r: 0,
			writes: vec![(Kind::Set, b"a"), (Kind::Set, b"b")],
			phys: vec![Phys::FlushAll, Phys::Compact],
			max_readers: 0,
			cursors: false,
			pending: false,
			ro_readers: false,
			sizes: vec![200],
		};
		let deep_budget = Budget::new(if tier == Tier::Quick { 12.0 } else { 300.0 });
		let lists = generate(&deep);
		samples.push(json!({"grammar": deep.name, "count": lists.len(), "example": ops_short(&lists[lists.len() * 2 / 3]).chars().take(300).collect::<String>()}));
		for opt in [OptSet::base("L3-vlog8-64-cache0").levels(3).with_vlog(8, 64).cache(0), OptSet::base("L4-vlog8-64-cache0").levels(4).with_vlog(8, 64).cache(0)] {
			let done = run_world_space(&mut report, &mut stats, &opt, &lists, &PROBE, &deep_budget, &classify);
			if !done {
				all_complete = false;
				completed.push(format!("grammar={} opt={}: time cap, not complete", deep.name, opt.name));
				break;
			}
			completed.push(format!("grammar={} len<={} (<= {} physical operations) opt={} sequences={}", deep.name, deep.max_len, deep.max_p, opt.name, lists.len()));
		}
	}
	eprintln!("C11: world part done at {:.1}s", budget.elapsed());
	// --- history part: every version of every key through the value log (time-travel reads) ---
	let hist_budget = Budget::new(if tier == Tier::Quick { 8.0 } else { 300.0 });
	let mut hist_evals = 0u64;
	if all_complete {
		let kinds = [Kind::Set, Kind::SoftDelete, Kind::Delete, Kind::Replace];
		let phys = [Phys::FlushAll, Phys::Compact, Phys::Reopen];
		let bounds: Vec<(usize, usize)> = if tier == Tier::Quick { vec![(2, 2), (3, 2)] } else { vec![(2, 2), (3, 2), (3, 3), (4, 3)] };
		for (n, d) in bounds {
			let lists = crate::props::c10::gen(n, d, &kinds, &phys);
			let found: std::sync::Mutex<Vec<(usize, String, String, &'static str)>> = std::sync::Mutex::new(vec![]);
			let done = std::sync::atomic::AtomicU64::new(0);
			use rayon::prelude::*;
			lists.par_iter().enumerate().for_each(|(i, l)| {
				if hist_budget.exhausted() {
					return;
				}
				for name in HIST_BACKENDS {
					match crate::util::guarded(|| crate::props::c10::run_history(&hist_opt(name), l)) {
						Ok(Ok(run)) => {
							if let Some((c, t)) = run.failure {
								found.lock().unwrap().push((i, format!("history:{name}:{c}"), t, name));
							}
						}
						Ok(Err(e)) => found.lock().unwrap().push((i, "machinery".into(), e, name)),
						Err(p) => found.lock().unwrap().push((i, format!("history:{name}:panic:{}", crate::props::norm_msg(&p)), p, name)),
					}
				}
				done.fetch_add(1, std::sync::atomic::Ordering::Relaxed);
			});
			let dn = done.load(std::sync::atomic::Ordering::Relaxed);
			hist_evals += dn * HIST_BACKENDS.len() as u64;
			if (dn as usize) < lists.len() {
				all_complete = false;
				completed.push(format!("history part n={n},d={d}: {dn} of {} (time cap)", lists.len()));
			} else {
				completed.push(format!("history part n={n},d={d}: all {} histories x {} value-log configurations, every version read back at every timestamp", lists.len(), HIST_BACKENDS.len()));
			}
			let mut found = found.into_inner().unwrap();
			found.sort_by_key(|f| f.0);
			let mut seen = std::collections::BTreeSet::new();
			for (i, c, t, name) in found {
				if c == "machinery" {
					eprintln!("machinery: {t}");
					return 2;
				}
				*stats.per_class.entry(c.clone()).or_default() += 1;
				if seen.insert(c.clone()) {
					report.violations.push(crate::util::Violation {
						class: c,
						what: format!("[{name}] {} => {t}", crate::props::c10::hops_str(&lists[i])),
						replay: json!({"engine": "c11-history", "backend": name, "hops": crate::props::c10::hops_json(&lists[i])}),
					});
				}
			}
			if !all_complete {
				break;
			}
		}
	}
	let reads = surrealkv::verif::VLOG_POINTER_READS.load(std::sync::atomic::Ordering::Relaxed);
	let removed = surrealkv::verif::VLOG_FILES_REMOVED.load(std::sync::atomic::Ordering::Relaxed);
	report.set("vlog_pointer_reads", json!(reads));
	report.set("vlog_files_removed", json!(removed));
	if reads == 0 || removed == 0 {
		eprintln!("C11: vacuous exploration (pointer reads {reads}, files removed {removed})");
		return 2;
	}
	// --- size sweep: N keys written, flushed, all overwritten, flushed, compacted (clean-up of the
	// value log and of the version index); every current value and every retained version must
	// still be readable. N runs over a list that reaches past any small fixed batch limit ---
	let mut sweep_runs = 0u64;
	{
		use rayon::prelude::*;
		let ns: Vec<usize> = if tier == Tier::Quick { vec![1, 2, 3, 17, 100, 520, 1030] } else { vec![1, 2, 3, 17, 100, 257, 520, 1030, 2100, 4200] };
		let cases: Vec<(usize, bool)> = ns.iter().flat_map(|n| [(*n, false), (*n, true)]).collect();
		let res: Vec<((usize, bool), Result<Option<(String, String)>, String>)> = cases.par_iter().map(|c| (*c, crate::util::guarded(|| size_sweep_case(c.0, c.1)).unwrap_or_else(|p| Ok(Some((format!("panic:{}", crate::props::norm_msg(&p)), p)))))).collect();
		for ((n, idx), r) in res {
			sweep_runs += 1;
			match r {
				Err(e) => {
					eprintln!("machinery: size sweep n={n}: {e}");
					return 2;
				}
				Ok(Some((class, text))) => {
					*stats.per_class.entry(class.clone()).or_default() += 1;
					report.violations.push(crate::util::Violation {
						class,
						what: format!("[size sweep: {n} keys, version index {}] {text}", if idx { "on" } else { "off" }),
						replay: json!({"engine": "c11-sweep", "n": n, "index": idx}),
					});
				}
				Ok(None) => {}
			}
		}
		completed.push(format!("size sweep: N in {ns:?} x version index off/on: write N keys, flush, overwrite all, flush, compact, read everything (current values, every version at its timestamp, full history)"));
	}
	report.set("size_sweep_runs", json!(sweep_runs));
	eprintln!("C11: history part and size sweep done at {:.1}s", budget.elapsed());
	// --- crash part: power-loss / process-crash images of value-log workloads ---
	let code = crate::props::crash::run_into(&mut report, "C11", tier, if tier == Tier::Quick { 10.0 } else { 600.0 });
	if code != 0 {
		return code;
	}
	eprintln!("C11: crash part done at {:.1}s", budget.elapsed());
	let crash_evals = report.coverage.get("evaluations").and_then(|v| v.as_u64()).unwrap_or(0);
	report.set("crash_image_evaluations", json!(crash_evals));
	// --- schedule part: a flush (with its obsolete-file clean-up) while a compaction is in flight ---
	let code = crate::props::sched::run_into(&mut report, "C11", tier, if tier == Tier::Quick { 6.0 } else { 200.0 });
	if code != 0 {
		return code;
	}
	let sched_evals = report.coverage.get("evaluations").and_then(|v| v.as_u64()).unwrap_or(0) - crash_evals;
	report.set("schedule_evaluations", json!(sched_evals));
	report.set("history_evaluations", json!(hist_evals));
	report.set("evaluations", json!(stats.evaluations + hist_evals + crash_evals + sched_evals));
	report.set("states", json!(stats.states.len().max(1)));
	report.set("transitions", json!(stats.transitions.max(1)));
	report.set("traces_validated_against_impl", json!(stats.evaluations));
	report.set("distinct_nontrivial", json!(stats.nontrivial.len()));
	report.set("rule", json!("three parts, see bounds_completed / crash_rule. world sequences of two grammars: (1) commits of {set a, set b, delete a} x value sizes {0,7,8,9,200} with flush/compaction/reopen, no reader (every list ending in a physical operation), (2) commits of {set a, delete a} x sizes {9,200} with flush/compaction and up to two readers with open cursors held across them; a sequence must contain a Begin followed by activity; non-trivial = some physical op changed the level shape; distinct by op list"));
	report.set("samples", json!(samples));
	report.set("bounds_completed", json!(completed));
	let crash_ex = report.coverage.get("exhaustive").and_then(|v| v.as_bool()).unwrap_or(true);
	report.set("exhaustive", json!(all_complete && crash_ex));
	report.set("failures_per_class", json!(stats.per_class));
	report.assume("the block cache is disabled in the quick option sets (a cached value would mask a pointer whose file was removed); value-log file size 64 bytes: every flush of a value >= 9 bytes rotates the log; threshold 8 (or 0 with versioning)");
	report.finish()
}
