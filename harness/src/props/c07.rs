//! C07 — the store can always reopen what it wrote (clean-close part; crash images are judged by
//! the crashx engine under C02/C03/C07's crash section).
//!
//! Every sequence of ≤ n commits (3-letter alphabet chosen so that deeper levels receive several
//! tables and levels are emptied by tombstone compaction) and ≤ d physical operations {F, C} is
//! followed by: clean close + reopen (must succeed, content = model), a probe commit (must be
//! visible, i.e. ordered after everything recovered), flush, and a second reopen.

use serde_json::json;

use crate::model::{Kind, Write};
use crate::props::{classify_world_failure, run_world_space, SpaceStats};
use crate::util::{Budget, Report, Tier};
use crate::world::{ops_short, Op, OptSet, Phys, WorldFailure};

pub const PROBE: [&[u8]; 3] = [b"a", b"x", b"c"];

fn gen(n: usize, d: usize, big: bool, out: &mut Vec<Vec<Op>>) {
	let writes: Vec<(Kind, &'static [u8])> = vec![(Kind::Set, b"a"), (Kind::Delete, b"a"), (Kind::Set, b"x")];
	fn rec(
		n: usize,
		d: usize,
		wi: usize,
		writes: &[(Kind, &'static [u8])],
		big: bool,
		cur: &mut Vec<Op>,
		out: &mut Vec<Vec<Op>>,
	) {
		if n == 0 && d == 0 {
			let mut l = cur.clone();
			l.push(Op::P(Phys::Reopen));
			l.push(Op::W(vec![Write::set(b"a", b"probe-after-reopen")]));
			l.push(Op::P(Phys::FlushAll));
			l.push(Op::P(Phys::Reopen));
			out.push(l);
			return;
		}
		if n > 0 {
			for (kind, k) in writes {
				let v = if big { vec![b'v'; 700] } else { format!("v{wi}").into_bytes() };
				cur.push(Op::W(vec![Write::new(*kind, k, &v)]));
				rec(n - 1, d, wi + 1, writes, big, cur, out);
				cur.pop();
			}
		}
		if d > 0 && wi > 0 {
			for p in [Phys::FlushAll, Phys::Compact] {
				cur.push(Op::P(p));
				rec(n, d - 1, wi, writes, big, cur, out);
				cur.pop();
			}
		}
	}
	rec(n, d, 0, &writes, big, &mut vec![], out);
}

fn classify(f: &WorldFailure, _ops: &[Op], _opt: &OptSet) -> String {
	classify_world_failure(f)
}

pub fn check(tier: Tier) -> i32 {
	surrealkv::verif::set_forced_height(1);
	let mut report = Report::new("C07", tier, "model_checking");
	let budget = Budget::new(if tier == Tier::Quick { 25.0 } else { 500.0 });
	let bounds: Vec<(usize, usize)> = if tier == Tier::Quick {
		vec![(1, 1), (2, 2), (2, 3), (2, 4), (3, 3), (3, 4), (3, 5)]
	} else {
		vec![(1, 1), (2, 2), (2, 3), (2, 4), (3, 3), (3, 4), (3, 5), (4, 4), (4, 5), (4, 6), (5, 5), (5, 6)]
	};
	let mut opts = vec![OptSet::base("L3").levels(3), OptSet::base("L2").levels(2)];
	if tier == Tier::Thorough {
		opts.push(OptSet::base("L3-flush-on-close").levels(3).flush_close(true));
		opts.push(OptSet::base("L2-vlog8-64").levels(2).with_vlog(8, 64));
		opts.push(OptSet::base("L3-versioned-index").levels(3).versioned(0, true));
	}
	let mut stats = SpaceStats::default();
	let mut completed = vec![];
	let mut samples = vec![];
	let mut all_complete = true;
	'outer: for (n, d) in &bounds {
		let mut lists = vec![];
		gen(*n, *d, false, &mut lists);
		if samples.len() < 4 {
			samples.push(json!(ops_short(&lists[lists.len() / 2])));
		}
		for opt in &opts {
			let done = run_world_space(&mut report, &mut stats, opt, &lists, &PROBE, &budget, &classify);
			if !done {
				all_complete = false;
				break 'outer;
			}
			completed.push(format!("n={n},d={d},opt={}", opt.name));
		}
	}
	// values of 700 B with a 2 KiB arena: every second commit overflows the arena (rotation inside apply)
	if all_complete {
		let mut lists = vec![];
		gen(3, 2, true, &mut lists);
		let opt = OptSet::base("L2-memtable2k").levels(2).memtable_size(2048);
		samples.push(json!({"opt": opt.name, "example": ops_short(&lists[3]).chars().take(120).collect::<String>()}));
		if !run_world_space(&mut report, &mut stats, &opt, &lists, &PROBE, &budget, &classify) {
			all_complete = false;
		} else {
			completed.push("n=3,d=2,opt=L2-memtable2k (values of 700 B: rotation inside apply)".into());
		}
	}
	// a transaction larger than the memtable
	for (nbefore, flush) in [(0usize, false), (1, false), (1, true)] {
		stats.evaluations += 1;
		if let Some((class, what)) = oversize_scenario(nbefore, flush) {
			report.violations.push(crate::util::Violation {
				class,
				what,
				replay: json!({"engine": "c07-oversize", "commits_before": nbefore, "flush_before": flush}),
			});
		}
	}
	// a smaller memtable on reopen than the one the log was written with (valid option change):
	// segments, and single transactions, larger than the new memtable
	let mut shrink_runs = 0u64;
	for (sizes, reopen_memtable) in shrink_cases() {
		stats.evaluations += 1;
		shrink_runs += 1;
		if let Some((class, what)) = shrink_scenario(&sizes, reopen_memtable) {
			report.violations.push(crate::util::Violation {
				class,
				what,
				replay: json!({"engine": "c07-shrink", "sizes": sizes, "reopen_memtable": reopen_memtable}),
			});
		}
	}
	completed.push(format!("reopen with a smaller memtable: all {shrink_runs} cases (1-3 commits with values of 20/1500/5000 B written under a 16 KiB memtable, reopened under 1/2/4 KiB)"));
	report.set("evaluations", json!(stats.evaluations));
	report.set("states", json!(stats.states.len().max(1)));
	report.set("transitions", json!(stats.transitions.max(1)));
	report.set("traces_validated_against_impl", json!(stats.evaluations));
	report.set("distinct_nontrivial", json!(stats.nontrivial.len()));
	report.set(
		"rule",
		json!("every list of n commits over {set a, delete a, set x} interleaved with exactly d ops from {flush-all, compaction round}, followed by reopen, probe commit, flush, reopen; every execution reopens twice, non-trivial = the level shape changed before the first reopen; distinct by op list"),
	);
	report.set("samples", json!(samples));
	report.set("bounds_completed", json!(completed));
	report.set("exhaustive", json!(all_complete));
	report.set("failures_per_class", json!(stats.per_class));
	report.assume("sequential part: clean close after every sequence; crash part: every crash image of the crashx workloads (incl. crash points inside the initial recovery of second-generation runs) is opened, crashed again, opened again, probed, flushed, closed and opened a third time");
	// crash part (shares the enumeration with C02/C03, judged for C07 here)
	let crash_cap = if tier == Tier::Quick { 25.0 } else { 700.0 };
	let code = crate::props::crash::run_into(&mut report, "C07", tier, crash_cap);
	if code != 0 {
		return code;
	}
	report.finish()
}

pub fn shrink_cases() -> Vec<(Vec<usize>, usize)> {
	let sizes = [20usize, 1500, 5000];
	let mut lists: Vec<Vec<usize>> = vec![];
	for a in sizes {
		lists.push(vec![a]);
		for b in sizes {
			lists.push(vec![a, b]);
			for c in sizes {
				lists.push(vec![a, b, c]);
			}
		}
	}
	let mut out = vec![];
	for l in lists {
		for m in [1024usize, 2048, 4096] {
			out.push((l.clone(), m));
		}
	}
	out
}

/// Commits written under a 16 KiB memtable, clean close without flush, reopen under a smaller
/// memtable: must open, twice with the same content, and accept a probe commit that survives.
pub fn shrink_scenario(sizes: &[usize], reopen_memtable: usize) -> Option<(String, String)> {
	use crate::world::World;
	let opt = OptSet::base("L2-memtable16k").levels(2).memtable_size(16384);
	let r = crate::util::guarded(|| {
		let mut w = World::new(opt.clone(), &PROBE).map_err(|e| ("open-error".to_string(), e))?;
		for (i, size) in sizes.iter().enumerate() {
			let mut v = format!("c{i}-").into_bytes();
			v.resize(*size, b'v');
			let key = format!("k{}", i % 2);
			match w.commit(&[Write::set(key.as_bytes(), &v), Write::set(b"x", format!("x{i}").as_bytes())], surrealkv::Durability::Eventual) {
				Ok(Ok(())) => {}
				Ok(Err(e)) => return Err(("setup-commit-failed".to_string(), e)),
				Err(e) => return Err(("machinery".to_string(), e)),
			}
		}
		let expected = w.dump().map_err(|e| ("read-error".to_string(), e))?;
		w.close().map_err(|e| ("close-error".to_string(), e))?;
		w.opt.memtable = reopen_memtable;
		w.open().map_err(|e| ("reopen-with-smaller-memtable-fails".to_string(), format!("open: {e}")))?;
		let d1 = w.dump().map_err(|e| ("read-error".to_string(), e))?;
		if d1 != expected {
			return Err(("reopen-with-smaller-memtable-differs".to_string(), format!("{} keys before, {} after", expected.len(), d1.len())));
		}
		match w.commit(&[Write::set(b"probe", b"after-reopen")], surrealkv::Durability::Eventual) {
			Ok(Ok(())) => {}
			Ok(Err(e)) => return Err(("probe-commit-fails".to_string(), e)),
			Err(e) => return Err(("machinery".to_string(), e)),
		}
		w.close().map_err(|e| ("close-error".to_string(), e))?;
		w.open().map_err(|e| ("second-reopen-fails".to_string(), e))?;
		let d2 = w.dump().map_err(|e| ("read-error".to_string(), e))?;
		let mut want = expected.clone();
		want.push((b"probe".to_vec(), b"after-reopen".to_vec()));
		want.sort();
		if d2 != want {
			return Err(("second-reopen-differs".to_string(), format!("{} keys expected, {} found", want.len(), d2.len())));
		}
		Ok(())
	});
	match r {
		Ok(Ok(())) => None,
		Ok(Err((c, w))) if c == "machinery" => Some(("machinery".into(), w)),
		Ok(Err((c, w))) => Some((c, format!("[written under a 16 KiB memtable: value sizes {sizes:?}; reopened under {reopen_memtable} B] {w}"))),
		Err(p) => Some((format!("panic:{}", crate::props::norm_msg(&p)), p)),
	}
}

/// A transaction larger than the memtable: commit may fail (with an error) or succeed; whatever
/// it left on disk must reopen, twice, with the same content.
pub fn oversize_scenario(nbefore: usize, flush: bool) -> Option<(String, String)> {
	use crate::world::World;
	let opt = OptSet::base("L2-memtable1k").levels(2).memtable_size(1024);
	let r = crate::util::guarded(|| {
		let mut w = World::new(opt.clone(), &PROBE).map_err(|e| ("open-error".to_string(), e))?;
		for i in 0..nbefore {
			let _ = w.commit(&[Write::set(b"x", format!("small{i}").as_bytes())], surrealkv::Durability::Eventual);
		}
		if flush {
			let _ = w.physical(Phys::FlushAll);
		}
		let big = vec![b'v'; 2000];
		let res = w.commit(&[Write::set(b"a", &big)], surrealkv::Durability::Eventual);
		let outcome = match &res {
			Ok(Ok(())) => "committed".to_string(),
			Ok(Err(e)) => format!("commit error: {e}"),
			Err(e) => format!("machinery: {e}"),
		};
		w.close().map_err(|e| ("close-error".to_string(), format!("after oversize commit ({outcome}): {e}")))?;
		w.open().map_err(|e| {
			("oversize-txn-reopen-fails".to_string(), format!("oversize transaction ({outcome}); then reopen: {e}"))
		})?;
		let d1 = w.dump().map_err(|e| ("read-error".to_string(), e))?;
		w.close().map_err(|e| ("close-error".to_string(), e))?;
		w.open().map_err(|e| ("reopen-error:second:".to_string() + &crate::props::norm_msg(&e), e))?;
		let d2 = w.dump().map_err(|e| ("read-error".to_string(), e))?;
		if d1 != d2 {
			return Err(("reopen-differs".to_string(), format!("content differs between two successive opens: {} vs {} keys", d1.len(), d2.len())));
		}
		Ok(())
	});
	match r {
		Ok(Ok(())) => None,
		Ok(Err((c, w))) => Some((c, format!("[L2-memtable1k, {nbefore} small commits, flush={flush}, then a 2000-byte value] {w}"))),
		Err(p) => Some((format!("panic:{}", crate::props::norm_msg(&p)), p)),
	}
}

/// Replay of the special scenarios (oversize transaction, reopen with a smaller memtable).
pub fn replay(r: &serde_json::Value) -> i32 {
	surrealkv::verif::set_forced_height(1);
	let run = || -> Option<(String, String)> {
		if r["engine"] == "c07-shrink" {
			let sizes: Vec<usize> = r["sizes"].as_array().unwrap().iter().map(|x| x.as_u64().unwrap() as usize).collect();
			shrink_scenario(&sizes, r["reopen_memtable"].as_u64().unwrap() as usize)
		} else {
			oversize_scenario(r["commits_before"].as_u64().unwrap_or(0) as usize, r["flush_before"].as_bool().unwrap_or(false))
		}
	};
	let a = run();
	let b = run();
	if a.as_ref().map(|x| &x.0) != b.as_ref().map(|x| &x.0) {
		eprintln!("machinery: replay not deterministic");
		return 2;
	}
	match a {
		Some((c, _)) if c == "machinery" => 2,
		Some((c, t)) => {
			println!("VIOLATION property=C07 replay=<this file>\n  class={c} {t}");
			1
		}
		None => {
			println!("replay passed: no violation");
			0
		}
	}
}
