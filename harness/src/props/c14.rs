//! C14 — checkpoint and restore reproduce the checkpointed state.
//!
//! pre-history (5 canonical shapes) → checkpoint → every mid-history of ≤ m operations from
//! {commit, flush, compaction} → restore → every post-history of ≤ p operations from
//! {commit, flush, compaction, reopen}; per option set. After the restore and after every later
//! step the store must equal the KvModel at the checkpoint plus the post-restore commits; the
//! checkpoint directory opened on its own must equal the model at the checkpoint.

use std::collections::BTreeMap;
use std::sync::Mutex;

use rayon::prelude::*;
use serde_json::{json, Value as J};
use surrealkv::Durability;

use crate::model::{Kind, Write};
use crate::util::{fresh_dir, Budget, Report, Tier, Violation};
use crate::world::{OptSet, Phys, World};

#[derive(Clone, Debug, PartialEq)]
pub enum Cop {
	W(Kind, &'static [u8]),
	F,
	C,
	O,
	/// begin a read transaction that stays open (its view must not move with later commits)
	B,
	/// rotate the memtable without flushing it (an immutable memtable stays queued)
	R,
}

fn cop_str(c: &Cop) -> String {
	match c {
		Cop::W(k, key) => format!("{}({})", k.as_str(), String::from_utf8_lossy(key)),
		Cop::F => "F".into(),
		Cop::C => "C".into(),
		Cop::O => "O".into(),
		Cop::B => "B".into(),
		Cop::R => "R".into(),
	}
}

#[derive(Clone, Debug)]
pub struct Case {
	pub pre: usize,
	pub mid: Vec<Cop>,
	pub post: Vec<Cop>,
}

impl Case {
	fn short(&self) -> String {
		format!("pre{} CK [{}] RS [{}]", self.pre, self.mid.iter().map(cop_str).collect::<Vec<_>>().join(" "), self.post.iter().map(cop_str).collect::<Vec<_>>().join(" "))
	}
	fn to_json(&self) -> J {
		let enc = |v: &Vec<Cop>| v.iter().map(cop_str).collect::<Vec<_>>();
		json!({"pre": self.pre, "mid": enc(&self.mid), "post": enc(&self.post)})
	}
	fn from_json(j: &J) -> Case {
		let dec = |v: &J| -> Vec<Cop> {
			v.as_array()
				.unwrap()
				.iter()
				.map(|s| match s.as_str().unwrap() {
					"F" => Cop::F,
					"C" => Cop::C,
					"O" => Cop::O,
					"B" => Cop::B,
					"R" => Cop::R,
					w => {
						let (k, key) = w.split_once('(').unwrap();
						let key = key.trim_end_matches(')');
						Cop::W(Kind::parse(k), if key == "a" { b"a" } else { b"b" })
					}
				})
				.collect()
		};
		Case {
			pre: j["pre"].as_u64().unwrap() as usize,
			mid: dec(&j["mid"]),
			post: dec(&j["post"]),
		}
	}
}

fn seqs(alpha: &[Cop], max: usize) -> Vec<Vec<Cop>> {
	let mut out = vec![vec![]];
	let mut frontier = vec![vec![]];
	for _ in 0..max {
		let mut next = vec![];
		for s in &frontier {
			for a in alpha {
				let mut n: Vec<Cop> = s.clone();
				n.push(a.clone());
				next.push(n);
			}
		}
		out.extend(next.iter().cloned());
		frontier = next;
	}
	out
}

fn token(n: &mut usize) -> Vec<u8> {
	*n += 1;
	if *n % 2 == 0 {
		format!("v{n}").into_bytes()
	} else {
		format!("value-{n}-0123456789").into_bytes()
	}
}

fn apply(w: &mut World, c: &Cop, n: &mut usize) -> Result<Option<(String, String)>, String> {
	match c {
		Cop::W(kind, key) => {
			let v = token(n);
			match w.commit(&[Write::new(*kind, key, &v)], Durability::Eventual)? {
				Ok(()) => {}
				Err(e) => return Ok(Some((format!("commit-error:{}", crate::props::norm_msg(&e)), format!("commit failed: {e}")))),
			}
		}
		// no fault is injected in this check: a flush, compaction or rotation that fails means the
		// store's files are not in the state its manifest describes
		Cop::F | Cop::C | Cop::R => {
			let p = match c {
				Cop::F => Phys::FlushAll,
				Cop::C => Phys::Compact,
				_ => Phys::Rotate,
			};
			if let Err(e) = w.physical(p) {
				return Ok(Some((format!("maintenance-error:{}", crate::props::norm_msg(&e)), format!("{}: {e}", cop_str(c)))));
			}
		}
		Cop::B => {
			w.drop_reader(0);
			w.begin_reader(0, surrealkv::Mode::ReadOnly)?;
		}
		Cop::O => {
			if std::env::var("VERIF_DEBUG").is_ok() {
				let _ = w.close();
				for (p, b) in crate::util::dir_snapshot(&w.dir) {
					eprintln!("    after close only {p}: {} bytes", b.len());
					if p.starts_with("wal/") {
						eprintln!("       reader: {:?}", surrealkv::verif::verif_wal_read_segment(&w.dir.join(&p), 1).map(|(r, e)| (r.len(), e)));
					}
				}
				let _ = w.open();
			}
			if let Err(e) = w.physical(Phys::Reopen) {
				return Ok(Some((format!("reopen-error:{}", crate::props::norm_msg(&e)), e)));
			}
		}
	}
	if std::env::var("VERIF_DEBUG").is_ok() {
		eprintln!("after {}: shape {:?}", cop_str(c), w.shape());
		for (p, b) in crate::util::dir_snapshot(&w.dir) {
			eprintln!("    {p}: {} bytes", b.len());
		}
	}
	Ok(w.check_all().map(|m| (format!("mismatch:{}:{}", m.query.split('(').next().unwrap_or(""), m.kind), m.text())))
}

/// Run one case; returns (class, text) of the first violation. phase tags the class.
pub fn run_case(opt: &OptSet, case: &Case) -> Result<Option<(String, String)>, String> {
	let r = run_case_inner(opt, case, false)?;
	if let Some((class, text)) = &r {
		if class.starts_with("post:") {
			// differential diagnosis: does the violation disappear when the background work that was
			// queued before the restore (deferred WAL clean-up of a flush) is drained before it?
			if run_case_inner(opt, case, true)?.is_none() {
				return Ok(Some(("stale-wal-cleanup-after-restore".into(), format!("{text} (passes when pending background tasks are drained before the restore)"))));
			}
		}
	}
	Ok(r)
}

fn run_case_inner(opt: &OptSet, case: &Case, drain_before_restore: bool) -> Result<Option<(String, String)>, String> {
	let mut w = World::new(opt.clone(), &[b"a", b"b", b"c"])?;
	let mut n = 0usize;
	// canonical pre-histories: 0 = memtable only, 1 = one L0 table, 2 = L1 + L0 + memtable
	let pre: Vec<Cop> = match case.pre {
		0 => vec![Cop::W(Kind::Set, b"a"), Cop::W(Kind::Set, b"b")],
		1 => vec![Cop::W(Kind::Set, b"a"), Cop::W(Kind::Set, b"b"), Cop::F],
		2 => vec![Cop::W(Kind::Set, b"a"), Cop::F, Cop::C, Cop::W(Kind::Set, b"b"), Cop::F, Cop::W(Kind::Set, b"a")],
		// 3 = empty store, 4 = one table holding only a short value: with a value log the
		// checkpoint then contains no value-log file at all (the first token is the long one, so
		// the counter starts one further for 4)
		3 => vec![],
		_ => {
			n = 1;
			vec![Cop::W(Kind::Set, b"b"), Cop::F]
		}
	};
	for c in &pre {
		if let Some((cl, t)) = apply(&mut w, c, &mut n)? {
			return Ok(Some((format!("pre:{cl}"), t)));
		}
	}
	let ck_dir = fresh_dir("ckpt");
	let res = (|| -> Result<Option<(String, String)>, String> {
		let at_checkpoint = w.model.len();
		let ck = {
			let _g = w.rt.as_ref().unwrap().enter();
			w.tree().create_checkpoint(&ck_dir)
		};
		if let Err(e) = ck {
			return Ok(Some((format!("checkpoint-error:{}", crate::props::norm_msg(&e.to_string())), format!("create_checkpoint: {e}"))));
		}
		if let Some(m) = w.check_all() {
			return Ok(Some((format!("after-checkpoint:mismatch:{}", m.kind), m.text())));
		}
		// a checkpoint is a frozen copy: nothing the store does later may change a byte of it
		let ck_bytes = crate::util::dir_snapshot(&ck_dir);
		for c in &case.mid {
			if let Some((cl, t)) = apply(&mut w, c, &mut n)? {
				return Ok(Some((format!("mid:{cl}"), t)));
			}
		}
		// restore
		if drain_before_restore {
			w.drain();
		}
		{
			let _g = w.rt.as_ref().unwrap().enter();
			if let Err(e) = w.tree().restore_from_checkpoint(&ck_dir) {
				return Ok(Some((format!("restore-error:{}", crate::props::norm_msg(&e.to_string())), format!("restore_from_checkpoint: {e}"))));
			}
		}
		w.model.commits.truncate(at_checkpoint);
		if let Some(m) = w.check_all() {
			return Ok(Some((format!("after-restore:mismatch:{}:{}", m.query.split('(').next().unwrap_or(""), m.kind), format!("right after restore: {}", m.text()))));
		}
		for (i, c) in case.post.iter().enumerate() {
			if let Some((cl, t)) = apply(&mut w, c, &mut n)? {
				return Ok(Some((format!("post:{cl}"), format!("post step {i} {}: {t}", cop_str(c)))));
			}
		}
		let ck_now = crate::util::dir_snapshot(&ck_dir);
		if ck_now != ck_bytes {
			let changed: Vec<&String> = ck_bytes.keys().chain(ck_now.keys()).filter(|k| ck_bytes.get(*k) != ck_now.get(*k)).collect::<std::collections::BTreeSet<_>>().into_iter().collect();
			return Ok(Some(("checkpoint-directory-modified".into(), format!("files of the checkpoint directory changed after the checkpoint was taken: {changed:?}"))));
		}
		// the checkpoint directory on its own
		let expect: BTreeMap<Vec<u8>, Vec<u8>> = w.model.state(at_checkpoint);
		let copy = fresh_dir("ckpt-open");
		crate::util::copy_dir(&ck_dir, &copy).map_err(|e| format!("{e}"))?;
		let mut w2 = World::attach(opt.clone(), &copy, &[]);
		let r = w2.open().and_then(|_| w2.dump());
		w2.abandon();
		drop(w2);
		let _ = std::fs::remove_dir_all(&copy);
		match r {
			Err(e) => return Ok(Some((format!("checkpoint-does-not-open:{}", crate::props::norm_msg(&e)), format!("opening the checkpoint directory: {e}")))),
			Ok(c) => {
				let got: BTreeMap<Vec<u8>, Vec<u8>> = c.into_iter().collect();
				if got != expect {
					return Ok(Some(("checkpoint-content".into(), format!("checkpoint directory holds {} keys, model at checkpoint {} keys", got.len(), expect.len()))));
				}
			}
		}
		Ok(None)
	})();
	let _ = std::fs::remove_dir_all(&ck_dir);
	res
}

/// Two checkpoints A (earlier) and B (later) and two restores in every order: restoring moves the
/// store backwards or forwards between the two states; at the end the directory of the running
/// store is copied (process-crash image) and must recover to the model.
#[derive(Clone, Debug)]
pub struct Case2 {
	pub mid1: Vec<Cop>,
	pub mid2: Vec<Cop>,
	pub restores: [u8; 2],
	pub post1: Vec<Cop>,
	pub post2: Vec<Cop>,
}

fn cops_str(v: &[Cop]) -> String {
	v.iter().map(cop_str).collect::<Vec<_>>().join(" ")
}

impl Case2 {
	fn short(&self) -> String {
		let n = |r: u8| if r == 0 { "A" } else { "B" };
		format!("CK_A [{}] CK_B [{}] RS_{} [{}] RS_{} [{}] crash", cops_str(&self.mid1), cops_str(&self.mid2), n(self.restores[0]), cops_str(&self.post1), n(self.restores[1]), cops_str(&self.post2))
	}
	fn to_json(&self) -> J {
		let enc = |v: &Vec<Cop>| v.iter().map(cop_str).collect::<Vec<_>>();
		json!({"mid1": enc(&self.mid1), "mid2": enc(&self.mid2), "restores": [self.restores[0], self.restores[1]], "post1": enc(&self.post1), "post2": enc(&self.post2)})
	}
	fn from_json(j: &J) -> Case2 {
		let dec = |v: &J| Case::from_json(&json!({"pre": 0, "mid": v, "post": []})).mid;
		Case2 {
			mid1: dec(&j["mid1"]),
			mid2: dec(&j["mid2"]),
			restores: [j["restores"][0].as_u64().unwrap_or(0) as u8, j["restores"][1].as_u64().unwrap_or(0) as u8],
			post1: dec(&j["post1"]),
			post2: dec(&j["post2"]),
		}
	}
}

pub fn cases2(tier: Tier) -> Vec<Case2> {
	let w = |k: &'static [u8]| Cop::W(Kind::Set, k);
	let mids: Vec<Vec<Cop>> = vec![
		vec![w(b"a")],
		vec![w(b"b"), Cop::F],
		vec![w(b"a"), Cop::F, w(b"b"), Cop::F, w(b"a"), Cop::F, w(b"b"), Cop::F],
		vec![Cop::W(Kind::Delete, b"b"), Cop::R],
	];
	let mut posts: Vec<Vec<Cop>> = vec![vec![], vec![w(b"a")], vec![w(b"b"), Cop::F]];
	if tier == Tier::Thorough {
		posts.push(vec![w(b"a"), Cop::F, Cop::C]);
		posts.push(vec![w(b"a"), Cop::O]);
	}
	let mut out = vec![];
	for mid1 in &mids {
		for mid2 in &mids {
			for restores in [[0u8, 1u8], [1, 0], [0, 0], [1, 1]] {
				for post1 in &posts {
					for post2 in &posts {
						out.push(Case2 { mid1: mid1.clone(), mid2: mid2.clone(), restores, post1: post1.clone(), post2: post2.clone() });
					}
				}
			}
		}
	}
	out.sort_by_key(|c| c.mid1.len() + c.mid2.len() + c.post1.len() + c.post2.len());
	out
}

pub fn run_case2(opt: &OptSet, case: &Case2) -> Result<Option<(String, String)>, String> {
	let mut w = World::new(opt.clone(), &[b"a", b"b", b"c"])?;
	let mut n = 0usize;
	let dirs = [fresh_dir("ckptA"), fresh_dir("ckptB")];
	let res = (|| -> Result<Option<(String, String)>, String> {
		for c in [Cop::W(Kind::Set, b"a"), Cop::W(Kind::Set, b"b")] {
			if let Some((cl, t)) = apply(&mut w, &c, &mut n)? {
				return Ok(Some((format!("pre:{cl}"), t)));
			}
		}
		let mut saved = vec![];
		for (i, mid) in [&case.mid1, &case.mid2].into_iter().enumerate() {
			let ck = {
				let _g = w.rt.as_ref().unwrap().enter();
				w.tree().create_checkpoint(&dirs[i])
			};
			if let Err(e) = ck {
				return Ok(Some((format!("checkpoint-error:{}", crate::props::norm_msg(&e.to_string())), format!("create_checkpoint {i}: {e}"))));
			}
			saved.push(w.model.commits.clone());
			for c in mid {
				if let Some((cl, t)) = apply(&mut w, c, &mut n)? {
					return Ok(Some((format!("mid:{cl}"), t)));
				}
			}
		}
		for (i, post) in [&case.post1, &case.post2].into_iter().enumerate() {
			let which = case.restores[i] as usize;
			{
				let _g = w.rt.as_ref().unwrap().enter();
				if let Err(e) = w.tree().restore_from_checkpoint(&dirs[which]) {
					return Ok(Some((format!("restore-error:{}", crate::props::norm_msg(&e.to_string())), format!("restore {} (checkpoint {}): {e}", i + 1, if which == 0 { "A" } else { "B" }))));
				}
			}
			w.model.commits = saved[which].clone();
			if let Some(m) = w.check_all() {
				return Ok(Some((format!("after-restore:mismatch:{}:{}", m.query.split('(').next().unwrap_or(""), m.kind), format!("right after restore {}: {}", i + 1, m.text()))));
			}
			for (j, c) in post.iter().enumerate() {
				if let Some((cl, t)) = apply(&mut w, c, &mut n)? {
					return Ok(Some((format!("post:{cl}"), format!("after restore {}, step {j} {}: {t}", i + 1, cop_str(c)))));
				}
			}
		}
		// process-crash image of the running store
		let img = fresh_dir("c14-img");
		crate::util::copy_dir(&w.dir, &img).map_err(|e| format!("copy: {e}"))?;
		let _ = std::fs::remove_file(img.join("LOCK"));
		let expect: BTreeMap<Vec<u8>, Vec<u8>> = w.model.state(w.model.len());
		let mut w2 = World::attach(opt.clone(), &img, &[]);
		let r = w2.open().and_then(|_| w2.dump());
		w2.abandon();
		drop(w2);
		let _ = std::fs::remove_dir_all(&img);
		match r {
			Err(e) => Ok(Some((format!("crash-image-does-not-open:{}", crate::props::norm_msg(&e)), format!("recovering a copy of the running store's directory: {e}")))),
			Ok(c) => {
				let got: BTreeMap<Vec<u8>, Vec<u8>> = c.into_iter().collect();
				if got != expect {
					let show = |m: &BTreeMap<Vec<u8>, Vec<u8>>| m.iter().map(|(k, v)| format!("{}={}", String::from_utf8_lossy(k), String::from_utf8_lossy(v))).collect::<Vec<_>>().join(",");
					return Ok(Some(("crash-image-content".into(), format!("a copy of the running store's directory recovers to {{{}}}, the store itself answers {{{}}}", show(&got), show(&expect)))));
				}
				Ok(None)
			}
		}
	})();
	for d in &dirs {
		let _ = std::fs::remove_dir_all(d);
	}
	res
}

pub fn option_sets(tier: Tier) -> Vec<OptSet> {
	let mut v = vec![OptSet::base("L2"), OptSet::base("L2-vlog8-64").with_vlog(8, 64)];
	if tier == Tier::Thorough {
		v.extend([OptSet::base("L2-cache0").cache(0), OptSet::base("L2-versioned").versioned(0, false), OptSet::base("L2-versioned-index").versioned(0, true), OptSet::base("L3-tinyblocks").levels(3).tiny_blocks()]);
	} else {
		v.push(OptSet::base("L2-versioned-index").versioned(0, true));
	}
	v
}

pub fn check(tier: Tier) -> i32 {
	surrealkv::verif::set_forced_height(1);
	// the conflict oracle prunes its map every 2 commits instead of every 1024: its watermark has
	// moved past the checkpoint's sequence number by the time of the restore
	surrealkv::verif::set_gc_interval(2);
	let mut report = Report::new("C14", tier, "model_checking");
	let budget = Budget::new(if tier == Tier::Quick { 50.0 } else { 900.0 });
	let (m, p) = if tier == Tier::Quick { (2, 3) } else { (3, 3) };
	let mid_alpha = vec![Cop::W(Kind::Set, b"a"), Cop::W(Kind::Delete, b"b"), Cop::F, Cop::C, Cop::R];
	let post_alpha = vec![Cop::W(Kind::Set, b"a"), Cop::W(Kind::Set, b"b"), Cop::F, Cop::C, Cop::O, Cop::B];
	let mut cases = vec![];
	for pre in 0..5 {
		for mid in seqs(&mid_alpha, m) {
			for post in seqs(&post_alpha, p) {
				cases.push(Case {
					pre,
					mid: mid.clone(),
					post,
				});
			}
		}
	}
	cases.sort_by_key(|c| c.mid.len() + c.post.len());
	let mut evaluations = 0u64;
	let mut transitions = 0u64;
	let mut nontrivial = 0u64;
	let mut per_class: BTreeMap<String, u64> = BTreeMap::new();
	let mut first: BTreeMap<String, (String, J)> = BTreeMap::new();
	let mut completed = vec![];
	let mut all_complete = true;
	for opt in option_sets(tier) {
		if budget.exhausted() {
			all_complete = false;
			completed.push(format!("{}: not started (time cap)", opt.name));
			continue;
		}
		let found: Mutex<Vec<(usize, String, String)>> = Mutex::new(vec![]);
		let done = std::sync::atomic::AtomicU64::new(0);
		cases.par_iter().enumerate().for_each(|(i, c)| {
			if budget.exhausted() {
				return;
			}
			let r = crate::util::guarded(|| run_case(&opt, c));
			done.fetch_add(1, std::sync::atomic::Ordering::Relaxed);
			match r {
				Ok(Ok(None)) => {}
				Ok(Ok(Some((cl, t)))) => found.lock().unwrap().push((i, cl, t)),
				Ok(Err(e)) => found.lock().unwrap().push((i, "machinery".into(), e)),
				Err(p) => found.lock().unwrap().push((i, format!("panic:{}", crate::props::norm_msg(&p)), p)),
			}
		});
		let d = done.load(std::sync::atomic::Ordering::Relaxed);
		evaluations += d;
		transitions += cases.iter().map(|c| (c.mid.len() + c.post.len() + 4) as u64).sum::<u64>();
		nontrivial += cases.iter().filter(|c| !c.mid.is_empty() && !c.post.is_empty()).count() as u64;
		if (d as usize) < cases.len() {
			all_complete = false;
			completed.push(format!("{}: {d} of {} cases (time cap)", opt.name, cases.len()));
		} else {
			completed.push(format!("{}: all {} cases (5 pre-histories x mid<= {m} x post<= {p})", opt.name, cases.len()));
		}
		let mut found = found.into_inner().unwrap();
		found.sort_by_key(|f| f.0);
		for (i, cl, t) in found {
			if cl == "machinery" {
				eprintln!("machinery: {t}");
				return 2;
			}
			*per_class.entry(cl.clone()).or_default() += 1;
			first.entry(cl).or_insert((format!("[{}] {} => {t}", opt.name, cases[i].short()), json!({"engine": "c14", "options": opt.to_json(), "case": cases[i].to_json()})));
		}
	}
	// two checkpoints, two restores
	{
		let c2 = cases2(tier);
		let b2 = Budget::new(if tier == Tier::Quick { 10.0 } else { 200.0 });
		for opt in option_sets(tier) {
			let found: Mutex<Vec<(usize, String, String)>> = Mutex::new(vec![]);
			let done = std::sync::atomic::AtomicU64::new(0);
			c2.par_iter().enumerate().for_each(|(i, c)| {
				if b2.exhausted() {
					return;
				}
				let r = crate::util::guarded(|| run_case2(&opt, c));
				done.fetch_add(1, std::sync::atomic::Ordering::Relaxed);
				match r {
					Ok(Ok(None)) => {}
					Ok(Ok(Some((cl, t)))) => found.lock().unwrap().push((i, cl, t)),
					Ok(Err(e)) => found.lock().unwrap().push((i, "machinery".into(), e)),
					Err(p) => found.lock().unwrap().push((i, format!("panic:{}", crate::props::norm_msg(&p)), p)),
				}
			});
			let d = done.load(std::sync::atomic::Ordering::Relaxed);
			evaluations += d;
			transitions += d * 8;
			nontrivial += d;
			if (d as usize) < c2.len() {
				all_complete = false;
				completed.push(format!("two-checkpoints {}: {d} of {} cases (time cap)", opt.name, c2.len()));
			} else {
				completed.push(format!("two-checkpoints {}: all {} cases (4 mid x 4 mid x 4 restore orders x posts^2)", opt.name, c2.len()));
			}
			let mut found = found.into_inner().unwrap();
			found.sort_by_key(|f| f.0);
			for (i, cl, t) in found {
				if cl == "machinery" {
					eprintln!("machinery: {t}");
					return 2;
				}
				let cl = format!("two-checkpoints:{cl}");
				*per_class.entry(cl.clone()).or_default() += 1;
				first.entry(cl).or_insert((format!("[{}] {} => {t}", opt.name, c2[i].short()), json!({"engine": "c14-two", "options": opt.to_json(), "case": c2[i].to_json()})));
			}
		}
	}
	for (class, n) in &per_class {
		let (text, replay) = first.get(class).cloned().unwrap_or_default();
		report.violations.push(Violation {
			class: class.clone(),
			what: text,
			replay,
		});
		for _ in 1..*n {
			report.violations.push(Violation {
				class: class.clone(),
				what: String::new(),
				replay: J::Null,
			});
		}
	}
	report.set("evaluations", json!(evaluations));
	report.set("states", json!(evaluations.max(1)));
	report.set("transitions", json!(transitions.max(1)));
	report.set("traces_validated_against_impl", json!(evaluations));
	report.set("distinct_nontrivial", json!(nontrivial));
	report.set("rule", json!("cases = {memtable-only, one L0 table, L1+L0+memtable, empty store, one L0 table with a short value only} x all mid-histories of <= m ops over {set a, delete b, flush, compaction} x all post-histories of <= p ops over {set a, set b, flush, compaction, reopen}; every case: checkpoint, mid, restore, post, then the checkpoint directory is opened on its own; all reads compared with the map model after every step; non-trivial = cases with non-empty mid and post"));
	report.set("samples", json!([cases[cases.len() / 2].short(), cases[cases.len() - 1].short()]));
	report.set("bounds_completed", json!(completed));
	report.set("exhaustive", json!(all_complete));
	report.set("failures_per_class", json!(per_class));
	report.assume("no commit is in flight during checkpoint/restore (single-threaded driver)");
	report.assume("conflict-oracle GC interval forced to 2 (hook) so that pruning happens between checkpoint and restore");
	// schedule part: a checkpoint taken (no commit in flight) while a compaction round and a
	// background flush are running; the checkpoint is then opened on its own
	let code = crate::props::sched::run_into(&mut report, "C14", tier, if tier == Tier::Quick { 8.0 } else { 200.0 });
	if code != 0 {
		return code;
	}
	let ex = report.coverage.get("exhaustive").and_then(|v| v.as_bool()).unwrap_or(true);
	report.set("exhaustive", json!(ex && all_complete));
	report.finish()
}

pub fn replay(r: &J) -> i32 {
	surrealkv::verif::set_forced_height(1);
	surrealkv::verif::set_gc_interval(2);
	let opt = OptSet::from_json(&r["options"]);
	let two = r["engine"] == "c14-two";
	let case = if two { Case { pre: 0, mid: vec![], post: vec![] } } else { Case::from_json(&r["case"]) };
	let case2 = if two { Some(Case2::from_json(&r["case"])) } else { None };
	println!("replaying C14 [{}] {}", opt.name, case2.as_ref().map(|c| c.short()).unwrap_or_else(|| case.short()));
	let run = || {
		crate::util::guarded(|| match &case2 {
			Some(c2) => run_case2(&opt, c2).map(|r| r.map(|(c, t)| (format!("two-checkpoints:{c}"), t))),
			None => run_case(&opt, &case),
		})
		.unwrap_or_else(|p| Ok(Some(("panic".into(), p))))
	};
	let a = run();
	let b = run();
	match (a, b) {
		(Ok(a), Ok(b)) => {
			if a.as_ref().map(|x| &x.0) != b.as_ref().map(|x| &x.0) {
				eprintln!("machinery: replay not deterministic");
				return 2;
			}
			match a {
				Some((c, t)) => {
					println!("VIOLATION property=C14 replay=<this file>\n  class={c} {t}");
					1
				}
				None => {
					println!("replay passed: no violation");
					0
				}
			}
		}
		(Err(e), _) | (_, Err(e)) => {
			eprintln!("machinery: {e}");
			2
		}
	}
}
