//! C15, second part: commits that fail *while applying* (a batch that does not fit the memtable
//! arena even after a rotation), enumerated over batch shapes and surrounding histories on the
//! real store. No fault injection: the failure is produced by the store itself.
//!
//! Oracle (statement of C15): a commit that returned an error has none of its writes visible to any
//! reader at any later step; the store keeps accepting transactions; every commit acknowledged
//! afterwards is present in a process-crash image taken at the end (and after a clean reopen).

use serde_json::{json, Value as J};

use crate::model::Write;
use crate::util::{guarded, Tier};
use crate::world::{OptSet, Phys, World};
use surrealkv::Durability;

pub const PROBE: [&[u8]; 6] = [b"f", b"p", b"q", b"r", b"x", b"y"];

#[derive(Clone, Debug)]
pub struct Scenario {
	pub memtable: usize,
	pub nbefore: usize,
	/// 1000-byte filler commits (key f) after the small ones: the memtable is then nearly full
	pub fill: usize,
	pub flush_before: bool,
	/// sizes of the failing batch's values; key i of the batch is KEYS[i] or "x" (overwrite)
	pub shape: Vec<usize>,
	pub overwrite_first: bool,
	pub nafter: usize,
}

impl Scenario {
	pub fn to_json(&self) -> J {
		json!({"engine": "c15-apply", "memtable": self.memtable, "nbefore": self.nbefore, "fill": self.fill, "flush_before": self.flush_before, "shape": self.shape, "overwrite_first": self.overwrite_first, "nafter": self.nafter})
	}
	pub fn from_json(j: &J) -> Scenario {
		Scenario {
			memtable: j["memtable"].as_u64().unwrap() as usize,
			nbefore: j["nbefore"].as_u64().unwrap() as usize,
			fill: j["fill"].as_u64().unwrap_or(0) as usize,
			flush_before: j["flush_before"].as_bool().unwrap(),
			shape: j["shape"].as_array().unwrap().iter().map(|x| x.as_u64().unwrap() as usize).collect(),
			overwrite_first: j["overwrite_first"].as_bool().unwrap(),
			nafter: j["nafter"].as_u64().unwrap() as usize,
		}
	}
	pub fn short(&self) -> String {
		format!(
			"[memtable {} B] {} small commits on x, {} filler commits of 1000 B{}; batch of values {:?}{} ; then {} small commits",
			self.memtable,
			self.nbefore,
			self.fill,
			if self.flush_before { ", flush" } else { "" },
			self.shape,
			if self.overwrite_first { " (first write overwrites x)" } else { "" },
			self.nafter
		)
	}
}

pub fn scenarios(tier: Tier) -> Vec<Scenario> {
	let small = 10usize;
	let mut shapes: Vec<Vec<usize>> = vec![];
	let sizes = [small, 9000];
	// all batches of 1..=3 values over {small, larger than the arena} with at least one large value
	for n in 1..=3 {
		let mut idx = vec![0usize; n];
		loop {
			let s: Vec<usize> = idx.iter().map(|i| sizes[*i]).collect();
			if s.iter().any(|x| *x > small) {
				shapes.push(s);
			}
			let mut k = 0;
			while k < n {
				idx[k] += 1;
				if idx[k] < sizes.len() {
					break;
				}
				idx[k] = 0;
				k += 1;
			}
			if k == n {
				break;
			}
		}
	}
	// batches that fit an empty arena but not the space left (succeed after a rotation): control group
	shapes.push(vec![small, 1500]);
	shapes.push(vec![1500, small]);
	shapes.push(vec![small, 1500, small]);
	let mut out = vec![];
	// boundary sweep: every value size around the largest batch that still fits an empty 4 KiB
	// memtable (single value, and a small value followed by the swept one)
	{
		let (lo, hi, step) = if tier == Tier::Quick { (3300usize, 3750usize, 1usize) } else { (3000, 4200, 1) };
		let mut size = lo;
		while size <= hi {
			for shape in [vec![size], vec![small, size]] {
				out.push(Scenario {
					memtable: 4096,
					nbefore: 0,
					fill: 0,
					flush_before: false,
					shape,
					overwrite_first: false,
					nafter: 2,
				});
			}
			size += step;
		}
	}
	let memtables: Vec<usize> = if tier == Tier::Quick { vec![4096] } else { vec![4096, 8192, 1024] };
	for memtable in memtables {
		for nbefore in [0usize, 1, 3] {
			for flush_before in [false, true] {
				if nbefore == 0 && flush_before {
					continue;
				}
				for shape in &shapes {
					for overwrite_first in [false, true] {
						if overwrite_first && nbefore == 0 {
							continue;
						}
						for (nafter, fill) in [(1usize, 0usize), (3, 0), (1, 2), (3, 2)] {
							if fill > 0 && flush_before {
								continue;
							}
							// the 1000-byte fillers are meant for the 4 KiB memtable and larger
							if fill > 0 && memtable < 4096 {
								continue;
							}
							out.push(Scenario {
								memtable,
								nbefore,
								fill,
								flush_before,
								shape: shape.clone(),
								overwrite_first,
								nafter,
							});
						}
					}
				}
			}
		}
	}
	out
}

/// Returns (class, text) of the first violation, and whether the batch failed.
pub fn run(sc: &Scenario) -> Result<(Option<(String, String)>, bool), String> {
	let opt = OptSet::base("L2-small-memtable").levels(2).memtable_size(sc.memtable);
	let r = guarded(|| -> Result<(Option<(String, String)>, bool), String> {
		let mut w = World::new(opt.clone(), &PROBE)?;
		let check = |w: &mut World, at: &str| -> Option<(String, String)> { w.check_all().map(|m| (format!("failed-commit-visible:{}", m.kind), format!("{at}: {} {}: expected {} got {}", m.who, m.query, m.expected, m.got))) };
		for i in 0..sc.nbefore {
			match w.commit(&[Write::set(b"x", format!("before{i}").as_bytes())], Durability::Eventual)? {
				Ok(()) => {}
				Err(e) => return Ok((Some(("setup-commit-failed".into(), format!("small commit {i} before the batch: {e}"))), false)),
			}
		}
		if sc.flush_before {
			w.physical(Phys::FlushAll)?;
		}
		for i in 0..sc.fill {
			let mut v = format!("filler{i}-").into_bytes();
			v.resize(1000, b'f');
			match w.commit(&[Write::set(b"f", &v)], Durability::Eventual)? {
				Ok(()) => {}
				Err(e) => return Ok((Some(("setup-commit-failed".into(), format!("filler commit {i} before the batch: {e}"))), false)),
			}
		}
		let keys: [&[u8]; 3] = [b"p", b"q", b"r"];
		let mut batch = vec![];
		for (i, size) in sc.shape.iter().enumerate() {
			let key: &[u8] = if i == 0 && sc.overwrite_first { b"x" } else { keys[i] };
			let mut v = format!("batch{i}-").into_bytes();
			while v.len() < *size {
				v.push(b'v');
			}
			batch.push(Write::set(key, &v));
		}
		let failed = match w.commit(&batch, Durability::Eventual)? {
			Ok(()) => false,
			Err(_) => true,
		};
		if let Some(f) = check(&mut w, "right after the batch") {
			return Ok((Some(f), failed));
		}
		let mut acked_after = vec![];
		for i in 0..sc.nafter {
			let key: &[u8] = if i % 2 == 0 { b"y" } else { b"x" };
			let val = format!("after{i}");
			match w.commit(&[Write::set(key, val.as_bytes())], Durability::Eventual)? {
				Ok(()) => acked_after.push((key.to_vec(), val.into_bytes())),
				Err(e) => {
					// the statement allows a sticky background error, nothing else
					let bg = w.tree().verif_background_error();
					if bg.is_ok() {
						return Ok((Some(("store-stops-accepting-commits".into(), format!("small commit {i} after the batch (batch failed: {failed}): {e}; no background error is reported"))), failed));
					}
				}
			}
			if let Some(f) = check(&mut w, &format!("after later commit {i}")) {
				return Ok((Some(f), failed));
			}
		}
		// process-crash image: copy the directory of the running store and recover the copy
		let img = crate::util::fresh_dir("c15b-img");
		crate::util::copy_dir(&w.dir, &img).map_err(|e| format!("copy: {e}"))?;
		let _ = std::fs::remove_file(img.join("LOCK"));
		{
			let mut w2 = World::attach(opt.clone(), &img, &PROBE);
			match w2.open() {
				Err(e) => {
					let _ = std::fs::remove_dir_all(&img);
					return Ok((Some(("crash-image-does-not-open".into(), format!("process-crash image after the scenario: {e}"))), failed));
				}
				Ok(()) => {
					let got = w2.dump()?;
					if failed {
						// the refused batch must not come back through the commit log either
						for wr in &batch {
							if let Some((_, gv)) = got.iter().find(|(gk, _)| gk == &wr.key) {
								if gv == &wr.value {
									let _ = w2.close();
									drop(w2);
									let _ = std::fs::remove_dir_all(&img);
									return Ok((Some(("failed-batch-recovered-after-crash".into(), format!("key {} of the batch whose commit returned an error is present in the recovered crash image", String::from_utf8_lossy(&wr.key)))), failed));
								}
							}
						}
					}
					let mut last: std::collections::BTreeMap<Vec<u8>, Vec<u8>> = Default::default();
					for (k, v) in &acked_after {
						last.insert(k.clone(), v.clone());
					}
					for (k, v) in &last {
						let g = got.iter().find(|(gk, _)| gk == k).map(|(_, gv)| gv.clone());
						if g.as_ref() != Some(v) {
							let _ = w2.close();
							drop(w2);
							let _ = std::fs::remove_dir_all(&img);
							return Ok((Some(("acked-after-failure-lost".into(), format!("commit {}={} acknowledged after the batch is {:?} in the recovered crash image", String::from_utf8_lossy(k), String::from_utf8_lossy(v), g.map(|x| String::from_utf8_lossy(&x).to_string())))), failed));
						}
					}
					let _ = w2.close();
				}
			}
		}
		let _ = std::fs::remove_dir_all(&img);
		// flush + compaction + clean reopen: still nothing of the failed batch (in the running store)
		w.physical(Phys::FlushAll)?;
		if let Some(f) = check(&mut w, "after a flush") {
			return Ok((Some(f), failed));
		}
		w.physical(Phys::Compact)?;
		if let Some(f) = check(&mut w, "after a compaction") {
			return Ok((Some(f), failed));
		}
		Ok((None, failed))
	});
	match r {
		Ok(x) => x,
		Err(p) => Ok((Some((format!("panic:{}", crate::props::norm_msg(&p)), p)), false)),
	}
}
