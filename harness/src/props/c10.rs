//! C10 — time-travel reads and version history are exact and permanent.
//!
//! Histories of ≤ n timestamped writes (set / soft delete / hard delete / replace) on two keys with
//! strictly increasing timestamps, crossed with every placement of ≤ d physical operations
//! (flush, compaction, reopen), on both back-ends (LSM scan / B+tree version index), retention 0.
//! After every step: get_at(k, T) for T at / around every timestamp, and history() for every
//! option combination of a grid (tombstones on/off × timestamp ranges × limits) traversed forward,
//! backward and by seek — all compared with the VersionModel; the answer logs of the two back-ends
//! on the same history are also compared with each other.

use std::collections::{BTreeMap, BTreeSet};
use std::sync::Mutex;

use rayon::prelude::*;
use serde_json::{json, Value as J};
use surrealkv::{HistoryOptions, LSMIterator, Mode, Transaction};

use crate::model::{Kind, Write};
use crate::util::{hex, poll_now, Budget, Polled, Report, Tier, Violation};
use crate::world::{OptSet, Phys, World};

pub const KEYS: [&[u8]; 2] = [b"a", b"b"];

#[derive(Clone, Debug, PartialEq)]
pub enum Hop {
	/// write with timestamp
	W(Kind, &'static [u8], u64),
	P(Phys),
	/// advance the clock (finite-retention option sets)
	Tick(u64),
}

fn hop_str(h: &Hop) -> String {
	match h {
		Hop::W(k, key, ts) => format!("{}({}@{ts})", k.as_str(), String::from_utf8_lossy(key)),
		Hop::P(p) => p.as_str().to_string(),
		Hop::Tick(d) => format!("tick+{d}"),
	}
}

pub fn hops_str(h: &[Hop]) -> String {
	h.iter().map(hop_str).collect::<Vec<_>>().join(" ")
}

#[derive(Clone, Debug, PartialEq, Eq, PartialOrd, Ord)]
pub struct Ver {
	pub ts: u64,
	pub tomb: bool,
	pub value: Vec<u8>,
}

/// Retained versions per key after the commits so far (commit order).
#[derive(Clone, Default)]
pub struct VersionModel {
	pub keys: BTreeMap<Vec<u8>, Vec<Ver>>,
}

impl VersionModel {
	pub fn apply(&mut self, kind: Kind, key: &[u8], ts: u64, value: &[u8]) {
		let v = self.keys.entry(key.to_vec()).or_default();
		match kind {
			Kind::Delete => v.clear(),
			Kind::Replace => {
				v.clear();
				v.push(Ver {
					ts,
					tomb: false,
					value: value.to_vec(),
				});
			}
			Kind::Set => v.push(Ver {
				ts,
				tomb: false,
				value: value.to_vec(),
			}),
			Kind::SoftDelete => v.push(Ver {
				ts,
				tomb: true,
				value: vec![],
			}),
		}
	}

	pub fn get_at(&self, key: &[u8], t: u64) -> Option<Vec<u8>> {
		let v = self.keys.get(key)?;
		// greatest timestamp not above t; later commit wins ties
		let mut best: Option<&Ver> = None;
		for x in v {
			if x.ts <= t && best.map_or(true, |b| x.ts >= b.ts) {
				best = Some(x);
			}
		}
		best.and_then(|b| if b.tomb { None } else { Some(b.value.clone()) })
	}

	/// (key, ts, tombstone, value) in iterator order: key asc, ts desc.
	pub fn history(&self, lo: &[u8], hi: &[u8], tombstones: bool, ts_range: Option<(u64, u64)>, limit: Option<usize>) -> Vec<(Vec<u8>, Ver)> {
		let mut out = vec![];
		for (k, vs) in &self.keys {
			if k.as_slice() < lo || k.as_slice() >= hi {
				continue;
			}
			let mut vs: Vec<&Ver> = vs.iter().collect();
			vs.sort_by(|a, b| b.ts.cmp(&a.ts));
			for v in vs {
				if v.tomb && !tombstones {
					continue;
				}
				if let Some((s, e)) = ts_range {
					if v.ts < s || v.ts > e {
						continue;
					}
				}
				out.push((k.clone(), v.clone()));
			}
		}
		if let Some(l) = limit {
			out.truncate(l);
		}
		out
	}
}

fn entry_of(it: &dyn LSMIterator) -> Result<(Vec<u8>, Ver), String> {
	let k = it.key();
	let tomb = k.is_tombstone();
	Ok((
		k.user_key().to_vec(),
		Ver {
			ts: k.timestamp(),
			tomb,
			value: if tomb { vec![] } else { it.value().map_err(|e| format!("value: {e}"))? },
		},
	))
}

fn fmt_hist(h: &[(Vec<u8>, Ver)]) -> String {
	format!("[{}]", h.iter().map(|(k, v)| format!("{}@{}{}", hex(k), v.ts, if v.tomb { "(tomb)".to_string() } else { format!("={}", hex(&v.value)) })).collect::<Vec<_>>().join(" "))
}

/// All time-travel / history observations of one transaction against the model.
/// Returns (class, text) of the first disagreement and appends a compact answer log.
pub fn check_versions(txn: &Transaction, model: &VersionModel, all_ts: &[u64], log: &mut String, retention_bounds: Option<&VersionModel>) -> Option<(String, String)> {
	check_versions_ext(txn, model, all_ts, log, retention_bounds, false)
}

/// `ignore_order`: compare history answers as multisets (used to look past a known ordering defect).
pub fn check_versions_ext(txn: &Transaction, model: &VersionModel, all_ts: &[u64], log: &mut String, retention_bounds: Option<&VersionModel>, ignore_order: bool) -> Option<(String, String)> {
	let mut ts_points: BTreeSet<u64> = [0u64, 5, u64::MAX].into_iter().collect();
	for t in all_ts {
		ts_points.extend([t.saturating_sub(1), *t, t + 1]);
	}
	for k in KEYS {
		for t in &ts_points {
			let got = match txn.get_at(k, *t) {
				Ok(g) => g,
				Err(e) => return Some(("get_at-error".into(), format!("get_at({},{t}): {e}", hex(k)))),
			};
			log.push_str(&format!("g{}{t}={:?};", hex(k), got.as_ref().map(|v| hex(v))));
			let exp = model.get_at(k, *t);
			if got != exp {
				// finite retention: an answer taken from an older retained version is also acceptable
				// iff the lower-bound model (must-keep only) gives it; otherwise report
				if let Some(lb) = retention_bounds {
					if got == lb.get_at(k, *t) {
						continue;
					}
				}
				let class = match (&exp, &got) {
					(None, Some(_)) => "get_at-resurrected",
					(Some(_), None) => "get_at-missing",
					_ => "get_at-wrong-version",
				};
				return Some((class.into(), format!("get_at({},{t}) = {:?}, expected {:?}", hex(k), got.map(|v| hex(&v)), exp.map(|v| hex(&v)))));
			}
		}
	}
	let max_ts = all_ts.iter().copied().max().unwrap_or(0);
	let mut ranges: Vec<Option<(u64, u64)>> = vec![None, Some((0, max_ts + 100))];
	for t in all_ts {
		ranges.push(Some((*t, *t)));
		ranges.push(Some((t + 1, max_ts + 100)));
		ranges.push(Some((0, t.saturating_sub(1))));
	}
	ranges.sort();
	ranges.dedup();
	for tomb in [false, true] {
		for r in &ranges {
			for limit in [None, Some(1usize), Some(2)] {
				let mut o = HistoryOptions::new().with_tombstones(tomb);
				if let Some((s, e)) = r {
					o = o.with_ts_range(*s, *e);
				}
				if let Some(l) = limit {
					o = o.with_limit(l);
				}
				let exp = model.history(b"a", b"c", tomb, *r, limit);
				let optname = format!("tombstones={tomb} ts_range={r:?} limit={limit:?}");
				// forward
				let mut it = match txn.history_with_options(b"a" as &[u8], b"c" as &[u8], &o) {
					Ok(it) => it,
					Err(e) => return Some(("history-error".into(), format!("history({optname}): {e}"))),
				};
				let mut got = vec![];
				let mut ok = match it.seek_first() {
					Ok(b) => b,
					Err(e) => return Some(("history-error".into(), format!("history({optname}).seek_first: {e}"))),
				};
				while ok {
					match entry_of(&it) {
						Ok(e) => got.push(e),
						Err(e) => return Some(("history-error".into(), format!("history({optname}): {e}"))),
					}
					ok = match it.next() {
						Ok(b) => b,
						Err(e) => return Some(("history-error".into(), format!("history({optname}).next: {e}"))),
					};
					if got.len() > 1000 {
						return Some(("history-loop".into(), format!("history({optname}) forward does not terminate")));
					}
				}
				log.push_str(&format!("h{tomb}{r:?}{limit:?}={};", fmt_hist(&got)));
				let (mut got, mut exp) = (got, exp);
				if ignore_order {
					if limit.is_some() {
						continue; // which entries a limit keeps depends on the order
					}
					got.sort();
					exp.sort();
				}
				if got != exp {
					if let Some(lb) = retention_bounds {
						// bracketed: must-keep ⊆ got ⊆ may-keep (per entry), order preserved
						let must = lb.history(b"a", b"c", tomb, *r, None);
						let may = model.history(b"a", b"c", tomb, *r, None);
						if limit.is_none() && must.iter().all(|m| got.contains(m)) && got.iter().all(|g| may.contains(g)) {
							continue;
						}
						if limit.is_some() {
							continue; // with a limit the bracket is not decidable entry-wise
						}
					}
					let extra = got.iter().any(|g| !exp.contains(g));
					let missing = exp.iter().any(|e| !got.contains(e));
					let filt = if r.is_some() { "ts-range" } else { "all-ts" };
					let class = match (extra, missing) {
						(true, false) => format!("history-extra-version:{filt}"),
						(false, true) => format!("history-missing-version:{filt}"),
						(true, true) => format!("history-wrong-versions:{filt}"),
						_ => "history-order".to_string(),
					};
					return Some((class, format!("history({optname}) forward = {}, expected {}", fmt_hist(&got), fmt_hist(&exp))));
				}
				// backward (no limit: the statement does not say which end a limit trims when going backward)
				if limit.is_none() && retention_bounds.is_none() && !ignore_order {
					let mut got = vec![];
					let mut ok = match it.seek_last() {
						Ok(b) => b,
						Err(e) => return Some(("history-error".into(), format!("history({optname}).seek_last: {e}"))),
					};
					while ok {
						match entry_of(&it) {
							Ok(e) => got.push(e),
							Err(e) => return Some(("history-error".into(), format!("history({optname}): {e}"))),
						}
						ok = match it.prev() {
							Ok(b) => b,
							Err(e) => return Some(("history-error".into(), format!("history({optname}).prev: {e}"))),
						};
						if got.len() > 1000 {
							return Some(("history-loop".into(), format!("history({optname}) backward does not terminate")));
						}
					}
					got.reverse();
					if got != exp {
						return Some((format!("history-backward:{}", if r.is_some() { "ts-range" } else { "all-ts" }), format!("history({optname}) backward (reversed) = {}, expected {}", fmt_hist(&got), fmt_hist(&exp))));
					}
					// seek to each key, then read that key's versions
					for k in [b"a" as &[u8], b"b", b"c"] {
						let ok = match it.seek(k) {
							Ok(b) => b,
							Err(e) => return Some(("history-error".into(), format!("history({optname}).seek({}): {e}", hex(k)))),
						};
						let exp_first = exp.iter().find(|(ek, _)| ek.as_slice() >= k).cloned();
						let got_first = if ok { entry_of(&it).ok() } else { None };
						if got_first != exp_first {
							return Some(("history-seek".into(), format!("history({optname}).seek({}) -> {:?}, expected {:?}", hex(k), got_first.map(|e| fmt_hist(&[e])), exp_first.map(|e| fmt_hist(&[e])))));
						}
					}
				}
			}
		}
	}
	// plain (current-state) reads after all the history scans: what those left in the caches
	// must not change them. Judged only where commit order and timestamp order agree.
	for k in [b"a" as &[u8], b"b"] {
		let vs = model.keys.get(k).cloned().unwrap_or_default();
		if vs.windows(2).any(|w| w[1].ts < w[0].ts) {
			continue;
		}
		let exp = vs.last().and_then(|x| if x.tomb { None } else { Some(x.value.clone()) });
		match txn.get(k) {
			Ok(got) => {
				if got != exp {
					return Some(("plain-get-after-history".into(), format!("get({}) after the history scans = {:?}, expected {:?}", hex(k), got.map(|v| String::from_utf8_lossy(&v).to_string()), exp.map(|v| String::from_utf8_lossy(&v).to_string()))));
				}
			}
			Err(e) => return Some(("plain-get-error".into(), format!("get({}): {e}", hex(k)))),
		}
	}
	None
}

pub struct Run {
	/// were there unflushed versions (non-empty memtables) when the failure was observed?
	pub unflushed_at_failure: bool,
	pub failure: Option<(String, String)>,
	pub log_hash_after_writes: Vec<u64>,
}

/// Execute one history on one back-end.
pub fn run_history(opt: &OptSet, hops: &[Hop]) -> Result<Run, String> {
	run_history_ext(opt, hops, false)
}

fn run_history_ext(opt: &OptSet, hops: &[Hop], ignore_order: bool) -> Result<Run, String> {
	run_history_full(opt, hops, ignore_order, false)
}

/// `hold_reader`: a read transaction is begun after the first write and kept open to the end, so
/// that every later compaction runs with a registered snapshot.
fn run_history_full(opt: &OptSet, hops: &[Hop], ignore_order: bool, hold_reader: bool) -> Result<Run, String> {
	let mut w = World::new(opt.clone(), &KEYS)?;
	let mut held: Option<Transaction> = None;
	let mut model = VersionModel::default();
	let mut all_ts = vec![];
	let mut run = Run {
		unflushed_at_failure: false,
		failure: None,
		log_hash_after_writes: vec![],
	};
	let mut n = 0usize;
	for (i, h) in hops.iter().enumerate() {
		match h {
			Hop::W(kind, key, ts) => {
				n += 1;
				let val = format!("v{n}-{ts}").into_bytes();
				// replace takes the commit time: pin the clock to the intended timestamp
				w.clock.set(*ts);
				let _g = w.rt.as_ref().unwrap().enter();
				let mut txn = w.tree().begin().map_err(|e| format!("{e}"))?;
				let mut wr = Write::new(*kind, key, &val);
				if *kind != Kind::Replace {
					wr = wr.at(*ts);
				}
				crate::world::apply_write(&mut txn, &wr).map_err(|e| format!("write: {e}"))?;
				match poll_now(txn.commit()) {
					Polled::Ready(Ok(())) => {}
					Polled::Ready(Err(e)) => {
						run.failure = Some((format!("commit-error:{}", crate::props::norm_msg(&e.to_string())), format!("step {i} {}: {e}", hop_str(h))));
						return Ok(run);
					}
					Polled::WouldBlock => return Err("commit would block".into()),
				}
				drop(txn);
				model.apply(*kind, key, *ts, &val);
				all_ts.push(*ts);
				if hold_reader && held.is_none() {
					held = Some(w.tree().begin_with_mode(Mode::ReadOnly).map_err(|e| format!("{e}"))?);
				}
			}
			Hop::P(p) => {
				if *p == Phys::Reopen {
					held = None;
				}
				if let Err(e) = w.physical(*p) {
					run.failure = Some((format!("op-error:{}:{}", p.as_str(), crate::props::norm_msg(&e)), format!("step {i} {}: {e}", hop_str(h))));
					return Ok(run);
				}
			}
			Hop::Tick(d) => {
				w.clock.advance(*d);
			}
		}
		let _g = w.rt.as_ref().unwrap().enter();
		let txn = w.tree().begin_with_mode(Mode::ReadOnly).map_err(|e| format!("{e}"))?;
		let mut log = String::new();
		if let Some((c, t)) = check_versions_ext(&txn, &model, &all_ts, &mut log, None, ignore_order) {
			run.failure = Some((c, format!("after step {i} {}: {t}", hop_str(h))));
			run.unflushed_at_failure = w.shape().map(|s| !s.active_empty || !s.immutables.is_empty()).unwrap_or(false);
			return Ok(run);
		}
		if matches!(h, Hop::W(..)) {
			run.log_hash_after_writes.push(crate::util::fnv64(log.as_bytes()));
		}
	}
	drop(held);
	Ok(run)
}


// ---------------------------------------------------------------------------
// Further parts: out-of-order timestamps, finite retention, crash during an indexed flush,
// history after a restore
// ---------------------------------------------------------------------------

/// Set-only histories with out-of-order timestamps (index back-end and LSM back-end).
fn out_of_order_histories(n: usize, d: usize) -> Vec<Vec<Hop>> {
	let mut out = vec![];
	let ts_choices: [u64; 3] = [30, 10, 20];
	fn rec(n: usize, d: usize, used: &mut Vec<u64>, cur: &mut Vec<Hop>, out: &mut Vec<Vec<Hop>>, ts_choices: &[u64]) {
		if n == 0 && d == 0 {
			out.push(cur.clone());
			return;
		}
		if n > 0 {
			for ts in ts_choices {
				if used.contains(ts) {
					continue; // equal timestamps on one key are not judged
				}
				used.push(*ts);
				cur.push(Hop::W(Kind::Set, b"a", *ts));
				rec(n - 1, d, used, cur, out, ts_choices);
				cur.pop();
				used.pop();
			}
		}
		if d > 0 && !cur.is_empty() {
			for p in [Phys::FlushAll, Phys::Compact, Phys::Reopen] {
				cur.push(Hop::P(p));
				rec(n, d - 1, used, cur, out, ts_choices);
				cur.pop();
			}
		}
	}
	rec(n, d, &mut vec![], &mut vec![], &mut out, &ts_choices);
	out
}

/// Finite retention: versions inside the window must be kept (lower bound), anything the
/// unlimited model keeps may be kept (upper bound).
fn run_retention(hops: &[Hop], retention: u64, index: bool) -> Result<Option<(String, String)>, String> {
	let opt = OptSet::base(if index { "versioned-index-ret" } else { "versioned-lsm-ret" }).versioned(retention, index);
	let mut w = World::new(opt, &KEYS)?;
	let mut upper = VersionModel::default();
	let mut all: Vec<(Kind, Vec<u8>, u64, Vec<u8>)> = vec![];
	let mut all_ts = vec![];
	let mut n = 0;
	for (i, h) in hops.iter().enumerate() {
		match h {
			Hop::W(kind, key, ts) => {
				n += 1;
				let val = format!("v{n}-{ts}").into_bytes();
				if w.clock.get() < *ts {
					w.clock.set(*ts);
				}
				let _g = w.rt.as_ref().unwrap().enter();
				let mut txn = w.tree().begin().map_err(|e| format!("{e}"))?;
				let mut wr = Write::new(*kind, key, &val);
				if *kind != Kind::Replace {
					wr = wr.at(*ts);
				}
				crate::world::apply_write(&mut txn, &wr).map_err(|e| format!("write: {e}"))?;
				match poll_now(txn.commit()) {
					Polled::Ready(Ok(())) => {}
					Polled::Ready(Err(e)) => return Ok(Some(("commit-error".into(), format!("{e}")))),
					Polled::WouldBlock => return Err("commit would block".into()),
				}
				let ts_eff = if *kind == Kind::Replace { w.clock.get() } else { *ts };
				upper.apply(*kind, key, ts_eff, &val);
				all.push((*kind, key.to_vec(), ts_eff, val));
				all_ts.push(ts_eff);
			}
			Hop::P(p) => w.physical(*p)?,
			Hop::Tick(d) => {
				w.clock.advance(*d);
			}
		}
		// lower bound: the barrier-processed history restricted to versions still inside the window
		// now (the clock only moves forward, so they were inside it at every earlier compaction) plus
		// the newest version of each key
		let now = w.clock.get();
		let mut lower = VersionModel::default();
		for (k, vs) in &upper.keys {
			let newest = vs.iter().map(|v| v.ts).max();
			let kept: Vec<Ver> = vs.iter().filter(|v| now.saturating_sub(v.ts) <= retention || Some(v.ts) == newest).cloned().collect();
			lower.keys.insert(k.clone(), kept);
		}
		let _g = w.rt.as_ref().unwrap().enter();
		let txn = w.tree().begin_with_mode(Mode::ReadOnly).map_err(|e| format!("{e}"))?;
		let mut log = String::new();
		if let Some((c, t)) = check_versions(&txn, &upper, &all_ts, &mut log, Some(&lower)) {
			return Ok(Some((format!("retention:{c}"), format!("after step {i} {} (clock {now}, retention {retention}): {t}", hop_str(h)))));
		}
	}
	Ok(None)
}

/// History after a restore: the discarded timeline must not show up (both back-ends).
fn run_restore_history(index: bool, flush_mid: bool) -> Result<Option<(String, String)>, String> {
	let opt = OptSet::base(if index { "versioned-index" } else { "versioned-lsm" }).versioned(0, index);
	let mut w = World::new(opt, &KEYS)?;
	let mut model = VersionModel::default();
	let mut commit = |w: &mut World, model: Option<&mut VersionModel>, key: &'static [u8], ts: u64, val: &[u8]| -> Result<(), String> {
		w.clock.set(ts);
		let _g = w.rt.as_ref().unwrap().enter();
		let mut txn = w.tree().begin().map_err(|e| format!("{e}"))?;
		txn.set_at(key, val, ts).map_err(|e| format!("{e}"))?;
		match poll_now(txn.commit()) {
			Polled::Ready(Ok(())) => {}
			other => return Err(format!("commit: {:?}", matches!(other, Polled::WouldBlock))),
		}
		if let Some(m) = model {
			m.apply(Kind::Set, key, ts, val);
		}
		Ok(())
	};
	commit(&mut w, Some(&mut model), b"a", 10, b"v10")?;
	w.physical(Phys::FlushAll)?;
	let ck = crate::util::fresh_dir("ckpt10");
	let r = (|| -> Result<Option<(String, String)>, String> {
		{
			let _g = w.rt.as_ref().unwrap().enter();
			w.tree().create_checkpoint(&ck).map_err(|e| format!("checkpoint: {e}"))?;
		}
		// discarded timeline
		commit(&mut w, None, b"a", 20, b"v20-discarded")?;
		commit(&mut w, None, b"b", 25, b"b25-discarded")?;
		if flush_mid {
			w.physical(Phys::FlushAll)?;
		}
		{
			let _g = w.rt.as_ref().unwrap().enter();
			w.tree().restore_from_checkpoint(&ck).map_err(|e| format!("restore: {e}"))?;
		}
		for round in 0..2 {
			let _g = w.rt.as_ref().unwrap().enter();
			let txn = w.tree().begin_with_mode(Mode::ReadOnly).map_err(|e| format!("{e}"))?;
			let mut log = String::new();
			if let Some((c, t)) = check_versions(&txn, &model, &[10, 20, 25, 30], &mut log, None) {
				return Ok(Some((format!("after-restore:{c}"), format!("round {round} (index={index}, discarded timeline flushed={flush_mid}): {t}"))));
			}
			drop(txn);
			drop(_g);
			if round == 0 {
				// a post-restore version, flushed
				commit(&mut w, Some(&mut model), b"a", 30, b"v30")?;
				w.physical(Phys::FlushAll)?;
			}
		}
		Ok(None)
	})();
	let _ = std::fs::remove_dir_all(&ck);
	r
}

/// Process-crash images at every file-system call of a workload that flushes with the version
/// index enabled (the B+tree is updated in place before the manifest switches).
fn run_crash_indexed_flush(budget: &Budget) -> Result<(u64, Vec<(String, String)>), String> {
	use crate::crashx::{build_image, enumerate_specs, run_traced, Wop, Workload};
	if !std::path::Path::new(crate::crashx::SHIM).exists() {
		return Err(format!("{} missing", crate::crashx::SHIM));
	}
	let opt = OptSet::base("versioned-index").versioned(0, true);
	let writes: Vec<(Kind, &'static [u8], u64)> = vec![(Kind::Set, b"a", 10), (Kind::Set, b"b", 20), (Kind::SoftDelete, b"a", 30), (Kind::Set, b"a", 40), (Kind::Delete, b"b", 50), (Kind::Set, b"b", 60)];
	let mut ops = vec![];
	for (i, (k, key, ts)) in writes.iter().enumerate() {
		ops.push(Wop::W(vec![Write::new(*k, key, format!("v{}-{ts}", i + 1).as_bytes()).at(*ts)], false));
		if i == 1 || i == 3 {
			ops.push(Wop::P(Phys::FlushAll));
		}
		if i == 4 {
			ops.push(Wop::P(Phys::Compact));
		}
	}
	ops.push(Wop::P(Phys::FlushAll));
	let wl = Workload {
		opt: opt.clone(),
		ops,
		forced_height: 1,
	};
	let tr = run_traced(&wl, None, None)?;
	let specs = enumerate_specs(&tr.init, &tr.trace, false, false);
	let mut found = vec![];
	let mut seen = std::collections::HashSet::new();
	let mut n = 0u64;
	// models at each prefix
	let mut models = vec![VersionModel::default()];
	for (i, (k, key, ts)) in writes.iter().enumerate() {
		let mut m = models.last().unwrap().clone();
		m.apply(*k, key, *ts, format!("v{}-{ts}", i + 1).as_bytes());
		models.push(m);
	}
	let all_ts: Vec<u64> = writes.iter().map(|w| w.2).collect();
	for spec in &specs {
		if budget.exhausted() {
			break;
		}
		let fs = build_image(&tr.init, &tr.trace, spec);
		if !seen.insert(fs.hash()) {
			continue;
		}
		n += 1;
		let ob = crate::props::crash::obligation(&tr.trace, spec.point);
		let dir = crate::util::fresh_dir("c10img");
		let r = crate::util::guarded(|| -> Option<(String, String)> {
			fs.materialize(&dir).ok()?;
			let mut w = World::attach(opt.clone(), &dir, &KEYS);
			if let Err(e) = w.open() {
				return Some((format!("crash:recovery-open-fails:{}", crate::props::norm_msg(&e)), format!("{}: open: {e}", spec.short())));
			}
			let _g = w.rt.as_ref().unwrap().enter();
			let txn = w.tree().begin_with_mode(Mode::ReadOnly).ok()?;
			// the recovered store must answer like the model at one prefix p in [acked, begun]
			let mut last = None;
			for p in (ob.acked..=ob.begun.max(ob.acked)).rev() {
				let mut log = String::new();
				match check_versions(&txn, &models[p.min(models.len() - 1)], &all_ts, &mut log, None) {
					None => return None,
					Some(x) => last = Some(x),
				}
			}
			drop(txn);
			drop(_g);
			w.abandon();
			last.map(|(c, t)| (format!("crash:{c}"), format!("{} (acked={} begun={}): {t}", spec.short(), ob.acked, ob.begun)))
		});
		let _ = std::fs::remove_dir_all(&dir);
		match r {
			Ok(None) => {}
			Ok(Some(f)) => found.push(f),
			Err(p) => found.push((format!("crash:panic:{}", crate::props::norm_msg(&p)), p)),
		}
	}
	Ok((n, found))
}

/// Many keys x several versions each, on the version-index back-end or the LSM back-end: enough
/// entries for the index to grow several levels and to split leaves in the middle (every round
/// inserts between the entries of the previous rounds). The complete history forwards and
/// backwards, and get_at for a sample of keys at every timestamp, must match the list model right
/// after the writes, after a reopen and after a compaction.
pub fn large_history_case(index: bool, nkeys: usize, rounds: usize) -> Result<Option<(String, String)>, String> {
	let mut opt = OptSet::base(if index { "versioned-index-large" } else { "versioned-lsm-large" }).versioned(0, index);
	opt.memtable = 16 << 20;
	let mut w = World::new(opt, &[])?;
	let key = |i: usize| format!("k{i:05}").into_bytes();
	let val = |r: usize, i: usize| format!("round{r}-key{i}").into_bytes();
	let ts_of = |r: usize| 10 * (r as u64 + 1);
	for r in 0..rounds {
		w.clock.set(ts_of(r));
		let ws: Vec<Write> = (0..nkeys).map(|i| Write::set(&key(i), &val(r, i)).at(ts_of(r))).collect();
		for chunk in ws.chunks(100) {
			w.commit(chunk, surrealkv::Durability::Eventual)?.map_err(|e| format!("commit: {e}"))?;
		}
		w.physical(Phys::FlushAll)?;
	}
	let mut expected: Vec<(Vec<u8>, Ver)> = vec![];
	for i in 0..nkeys {
		for r in (0..rounds).rev() {
			expected.push((key(i), Ver { ts: ts_of(r), tomb: false, value: val(r, i) }));
		}
	}
	let check = |w: &World, stage: &str| -> Result<Option<(String, String)>, String> {
		let _g = w.rt.as_ref().unwrap().enter();
		let txn = w.tree().begin_with_mode(Mode::ReadOnly).map_err(|e| format!("{e}"))?;
		let describe = |got: &[(Vec<u8>, Ver)]| -> String {
			let pos = got.iter().zip(expected.iter()).position(|(a, b)| a != b).unwrap_or(got.len().min(expected.len()));
			format!("{} entries, expected {}; first difference at position {pos}: got {}, expected {}", got.len(), expected.len(), got.get(pos).map(|e| fmt_hist(std::slice::from_ref(e))).unwrap_or("<end>".into()), expected.get(pos).map(|e| fmt_hist(std::slice::from_ref(e))).unwrap_or("<end>".into()))
		};
		{
			let mut it = txn.history(crate::world::LO, crate::world::HI).map_err(|e| format!("history: {e}"))?;
			let mut got = vec![];
			let mut ok = match it.seek_first() {
				Ok(b) => b,
				Err(e) => return Ok(Some(("large:history-error".into(), format!("{stage}: seek_first: {e}")))),
			};
			while ok && got.len() <= expected.len() {
				match entry_of(&it) {
					Ok(e) => got.push(e),
					Err(e) => return Ok(Some(("large:history-error".into(), format!("{stage}: forward entry {}: {e}", got.len())))),
				}
				ok = match it.next() {
					Ok(b) => b,
					Err(e) => return Ok(Some(("large:history-error".into(), format!("{stage}: next after {} entries: {e}", got.len())))),
				};
			}
			if got != expected {
				return Ok(Some(("large:history-forward".into(), format!("{stage}: complete history forward: {}", describe(&got)))));
			}
			let mut got = vec![];
			let mut ok = match it.seek_last() {
				Ok(b) => b,
				Err(e) => return Ok(Some(("large:history-error".into(), format!("{stage}: seek_last: {e}")))),
			};
			while ok && got.len() <= expected.len() {
				match entry_of(&it) {
					Ok(e) => got.push(e),
					Err(e) => return Ok(Some(("large:history-error".into(), format!("{stage}: backward entry {}: {e}", got.len())))),
				}
				ok = match it.prev() {
					Ok(b) => b,
					Err(e) => return Ok(Some(("large:history-error".into(), format!("{stage}: prev after {} entries: {e}", got.len())))),
				};
			}
			got.reverse();
			if got != expected {
				return Ok(Some(("large:history-backward".into(), format!("{stage}: complete history backward (reversed): {}", describe(&got)))));
			}
		}
		for i in (0..nkeys).step_by(7).chain([nkeys - 1]) {
			for r in 0..rounds {
				for (t, exp) in [(ts_of(r), Some(val(r, i))), (ts_of(r) - 1, if r == 0 { None } else { Some(val(r - 1, i)) }), (ts_of(r) + 1, Some(val(r, i)))] {
					match txn.get_at(&key(i), t) {
						Ok(g) if g.as_deref() == exp.as_deref() => {}
						Ok(g) => return Ok(Some(("large:get_at-wrong".into(), format!("{stage}: get_at({}, {t}) = {:?}, expected {:?}", String::from_utf8_lossy(&key(i)), g.map(|v| String::from_utf8_lossy(&v).to_string()), exp.map(|v| String::from_utf8_lossy(&v).to_string()))))),
						Err(e) => return Ok(Some(("large:get_at-error".into(), format!("{stage}: get_at({}, {t}): {e}", String::from_utf8_lossy(&key(i)))))),
					}
				}
			}
		}
		Ok(None)
	};
	if let Some(f) = check(&w, "after the writes")? {
		return Ok(Some(f));
	}
	w.physical(Phys::Reopen)?;
	if let Some(f) = check(&w, "after a reopen")? {
		return Ok(Some(f));
	}
	w.physical(Phys::Compact)?;
	if let Some(f) = check(&w, "after a compaction")? {
		return Ok(Some(f));
	}
	w.physical(Phys::Reopen)?;
	check(&w, "after compaction and reopen")
}

pub fn gen(n: usize, d: usize, kinds: &[Kind], phys: &[Phys]) -> Vec<Vec<Hop>> {
	let mut out = vec![];
	fn rec(n: usize, d: usize, kinds: &[Kind], phys: &[Phys], wi: usize, cur: &mut Vec<Hop>, out: &mut Vec<Vec<Hop>>) {
		if n == 0 && d == 0 {
			out.push(cur.clone());
			return;
		}
		if n > 0 {
			for kind in kinds {
				for key in KEYS {
					// the second key only appears once the first has a version (symmetry)
					if key == b"b" && !cur.iter().any(|h| matches!(h, Hop::W(_, k, _) if *k == b"a")) {
						continue;
					}
					cur.push(Hop::W(*kind, key, 10 * (wi as u64 + 1)));
					rec(n - 1, d, kinds, phys, wi + 1, cur, out);
					cur.pop();
				}
			}
		}
		if d > 0 && wi > 0 {
			for p in phys {
				cur.push(Hop::P(*p));
				rec(n, d - 1, kinds, phys, wi, cur, out);
				cur.pop();
			}
		}
	}
	rec(n, d, kinds, phys, 0, &mut vec![], &mut out);
	out
}

pub fn hops_json(h: &[Hop]) -> J {
	json!(h.iter().map(|x| match x {
		Hop::W(k, key, ts) => json!({"w": [k.as_str(), String::from_utf8_lossy(key), ts]}),
		Hop::P(p) => json!({"p": p.as_str()}),
		Hop::Tick(d) => json!({"tick": d}),
	}).collect::<Vec<_>>())
}

pub fn hops_from_json(j: &J) -> Vec<Hop> {
	j.as_array()
		.unwrap()
		.iter()
		.map(|x| {
			if let Some(w) = x.get("w") {
				Hop::W(Kind::parse(w[0].as_str().unwrap()), if w[1] == "a" { b"a" } else { b"b" }, w[2].as_u64().unwrap())
			} else if let Some(p) = x.get("p") {
				Hop::P(Phys::parse(p.as_str().unwrap()).unwrap())
			} else {
				Hop::Tick(x["tick"].as_u64().unwrap())
			}
		})
		.collect()
}

pub fn check(tier: Tier) -> i32 {
	surrealkv::verif::set_forced_height(1);
	let mut report = Report::new("C10", tier, "model_checking");
	let budget = Budget::new(if tier == Tier::Quick { 50.0 } else { 1100.0 });
	let kinds = [Kind::Set, Kind::SoftDelete, Kind::Delete, Kind::Replace];
	let phys = [Phys::FlushAll, Phys::Compact, Phys::Reopen];
	let bounds: Vec<(usize, usize)> = if tier == Tier::Quick { vec![(1, 1), (2, 1), (2, 2), (3, 1), (3, 2)] } else { vec![(1, 1), (2, 1), (2, 2), (3, 1), (3, 2), (3, 3), (4, 1), (4, 2), (4, 3), (5, 2)] };
	let lsm = OptSet::base("versioned-lsm").versioned(0, false);
	let idx = OptSet::base("versioned-index").versioned(0, true);
	let lsm3 = OptSet::base("versioned-lsm-L3").levels(3).versioned(0, false);
	let mut evaluations = 0u64;
	let mut transitions = 0u64;
	let mut nontrivial = 0u64;
	let mut per_class: BTreeMap<String, u64> = BTreeMap::new();
	let mut first: BTreeMap<String, (String, J)> = BTreeMap::new();
	let mut completed = vec![];
	let mut all_complete = true;
	let mut states: BTreeSet<u64> = BTreeSet::new();
	'outer: for (n, d) in &bounds {
		let lists = gen(*n, *d, &kinds, &phys);
		if budget.exhausted() {
			all_complete = false;
			completed.push(format!("n={n},d={d}: not started (time cap)"));
			break 'outer;
		}
		let found: Mutex<Vec<(usize, String, String, &'static str)>> = Mutex::new(vec![]);
		let done = std::sync::atomic::AtomicU64::new(0);
		let st: Mutex<BTreeSet<u64>> = Mutex::new(BTreeSet::new());
		lists.par_iter().enumerate().for_each(|(i, l)| {
			if budget.exhausted() {
				return;
			}
			let a = crate::util::guarded(|| run_history(&lsm, l));
			let b = crate::util::guarded(|| run_history(&idx, l));
			let c = crate::util::guarded(|| run_history(&lsm3, l));
			done.fetch_add(1, std::sync::atomic::Ordering::Relaxed);
			let mut logs = vec![];
			for (r, name) in [(a, "lsm"), (b, "index"), (c, "lsm-L3")] {
				match r {
					Ok(Ok(run)) => {
						if let Some((c, t)) = run.failure {
							found.lock().unwrap().push((i, format!("{name}:{c}"), t, name));
						}
						logs.push(run.log_hash_after_writes);
					}
					Ok(Err(e)) => found.lock().unwrap().push((i, "machinery".into(), e, name)),
					Err(p) => found.lock().unwrap().push((i, format!("{name}:panic:{}", crate::props::norm_msg(&p)), p, name)),
				}
			}
			if logs.len() == 3 {
				let common = logs[0].len().min(logs[1].len());
				if logs[0][..common] != logs[1][..common] {
					found.lock().unwrap().push((i, "backends-disagree".into(), "the LSM and the index back-end answered differently on the same history".into(), "both"));
				}
				st.lock().unwrap().extend(logs[0].iter().copied());
			}
		});
		let dn = done.load(std::sync::atomic::Ordering::Relaxed);
		evaluations += 3 * dn;
		transitions += 3 * dn * (*n + *d) as u64;
		nontrivial += if *d > 0 { 3 * dn } else { 0 };
		states.extend(st.into_inner().unwrap());
		if (dn as usize) < lists.len() {
			all_complete = false;
			completed.push(format!("n={n},d={d}: {dn} of {} histories (time cap)", lists.len()));
		} else {
			completed.push(format!("n={n},d={d}: all {} histories x 3 configurations (LSM scan L2, version index L2, LSM scan L3)", lists.len()));
		}
		let mut found = found.into_inner().unwrap();
		found.sort_by_key(|f| f.0);
		for (i, c, t, name) in found {
			if c == "machinery" {
				eprintln!("machinery: {t}");
				return 2;
			}
			*per_class.entry(c.clone()).or_default() += 1;
			first.entry(c).or_insert((format!("[{name}] {} => {t}", hops_str(&lists[i])), json!({"engine": "c10", "backend": name, "hops": hops_json(&lists[i])})));
		}
		if !all_complete {
			break;
		}
	}
	// --- part 1b: the same histories with a read transaction held open (a registered snapshot
	// must not make compaction drop versions that the retention policy keeps) ---
	if all_complete {
		let (n, d) = if tier == Tier::Quick { (3, 2) } else { (4, 2) };
		let lists = gen(n, d, &[Kind::Set, Kind::SoftDelete, Kind::Replace], &[Phys::FlushAll, Phys::Compact]);
		let found: Mutex<Vec<(usize, String, String, &'static str)>> = Mutex::new(vec![]);
		let b1 = Budget::new(if tier == Tier::Quick { 15.0 } else { 300.0 });
		let done1 = std::sync::atomic::AtomicU64::new(0);
		lists.par_iter().enumerate().for_each(|(i, l)| {
			if b1.exhausted() {
				return;
			}
			done1.fetch_add(1, std::sync::atomic::Ordering::Relaxed);
			for (opt, name) in [(&lsm, "lsm"), (&idx, "index")] {
				match crate::util::guarded(|| run_history_full(opt, l, false, true)) {
					Ok(Ok(run)) => {
						if let Some((c, t)) = run.failure {
							found.lock().unwrap().push((i, format!("reader-open:{name}:{c}"), t, name));
						}
					}
					Ok(Err(e)) => found.lock().unwrap().push((i, "machinery".into(), e, name)),
					Err(p) => found.lock().unwrap().push((i, format!("reader-open:{name}:panic:{}", crate::props::norm_msg(&p)), p, name)),
				}
			}
		});
		let d1 = done1.load(std::sync::atomic::Ordering::Relaxed);
		evaluations += 2 * d1;
		if (d1 as usize) < lists.len() {
			all_complete = false;
		}
		completed.push(format!("reader held open: {d1} of {} histories (n={n}, d={d}, flush/compaction) x 2 back-ends with a read transaction begun after the first write and kept open", lists.len()));
		let mut found = found.into_inner().unwrap();
		found.sort_by_key(|f| f.0);
		for (i, c, t, name) in found {
			if c == "machinery" {
				eprintln!("machinery: {t}");
				return 2;
			}
			*per_class.entry(c.clone()).or_default() += 1;
			first.entry(c).or_insert((format!("[{name}, reader open] {} => {t}", hops_str(&lists[i])), json!({"engine": "c10", "backend": name, "reader_open": true, "hops": hops_json(&lists[i])})));
		}
	}
	// --- part 2: out-of-order timestamps (set-only), both back-ends ---
	{
		let (n, d) = if tier == Tier::Quick { (3, 2) } else { (3, 3) };
		let lists = out_of_order_histories(n, d);
		let found: Mutex<Vec<(usize, String, String)>> = Mutex::new(vec![]);
		let b2 = Budget::new(if tier == Tier::Quick { 15.0 } else { 200.0 });
		let done2 = std::sync::atomic::AtomicU64::new(0);
		lists.par_iter().enumerate().for_each(|(i, l)| {
			if b2.exhausted() {
				return;
			}
			done2.fetch_add(1, std::sync::atomic::Ordering::Relaxed);
			// out-of-order timestamps are only promised with the version index
			for (opt, name) in [(&idx, "index")] {
				match crate::util::guarded(|| run_history(opt, l)) {
					Ok(Ok(run)) => {
						if let Some((c, t)) = run.failure {
							// only the history listing / range filter is the recorded finding; a wrong
							// get_at with unflushed versions is something else
							if run.unflushed_at_failure && c.starts_with("history") {
								// root cause (known finding): memtable-resident versions are in commit
								// order, not timestamp order; look past it with everything flushed
								found.lock().unwrap().push((i, format!("out-of-order:{name}:unflushed-versions-not-in-timestamp-order"), format!("{c}: {t}")));
								let mut flushed: Vec<Hop> = vec![];
								for h in l.iter() {
									flushed.push(h.clone());
									if matches!(h, Hop::W(..)) {
										flushed.push(Hop::P(Phys::FlushAll));
									}
								}
								if let Ok(Ok(run2)) = crate::util::guarded(|| run_history(opt, &flushed)) {
									if let Some((c2, t2)) = run2.failure {
										found.lock().unwrap().push((i, format!("out-of-order:{name}:flushed:{c2}"), format!("{} => {t2}", hops_str(&flushed))));
									}
								}
							} else {
								found.lock().unwrap().push((i, format!("out-of-order:{name}:{c}"), t));
							}
						}
					}
					Ok(Err(e)) => found.lock().unwrap().push((i, "machinery".into(), e)),
					Err(p) => found.lock().unwrap().push((i, format!("out-of-order:{name}:panic:{}", crate::props::norm_msg(&p)), p)),
				}
			}
		});
		let d2 = done2.load(std::sync::atomic::Ordering::Relaxed);
		if (d2 as usize) < lists.len() {
			all_complete = false;
		}
		evaluations += d2;
		completed.push(format!("out-of-order timestamps: {d2} of {} set-only histories (3 timestamps in every order, d<={d}), version-index back-end", lists.len()));
		let mut found = found.into_inner().unwrap();
		found.sort_by_key(|f| f.0);
		for (i, c, t) in found {
			if c == "machinery" {
				eprintln!("machinery: {t}");
				return 2;
			}
			*per_class.entry(c.clone()).or_default() += 1;
			first.entry(c).or_insert((format!("{} => {t}", hops_str(&lists[i])), json!({"engine": "c10", "backend": "both", "hops": hops_json(&lists[i])})));
		}
	}
	// --- part 3: finite retention under the manual clock ---
	{
		let kinds_r = [Kind::Set, Kind::SoftDelete];
		let mut lists = vec![];
		for base in gen(3, 1, &kinds_r, &[Phys::FlushAll]) {
			// insert clock ticks (one window = 100) and a compaction at the end
			for tick_at in 0..=base.len() {
				let mut l = base.clone();
				l.insert(tick_at, Hop::Tick(150));
				l.push(Hop::P(Phys::FlushAll));
				l.push(Hop::P(Phys::Compact));
				l.push(Hop::Tick(150));
				l.push(Hop::P(Phys::Compact));
				lists.push(l);
			}
		}
		let found: Mutex<Vec<(usize, String, String)>> = Mutex::new(vec![]);
		lists.par_iter().enumerate().for_each(|(i, l)| {
			if budget.exhausted() {
				return;
			}
			for index in [false, true] {
				match crate::util::guarded(|| run_retention(l, 100, index)) {
					Ok(Ok(None)) => {}
					Ok(Ok(Some((c, t)))) => found.lock().unwrap().push((i, format!("{}:{c}", if index { "index" } else { "lsm" }), t)),
					Ok(Err(e)) => found.lock().unwrap().push((i, "machinery".into(), e)),
					Err(p) => found.lock().unwrap().push((i, format!("retention:panic:{}", crate::props::norm_msg(&p)), p)),
				}
			}
		});
		evaluations += 2 * lists.len() as u64;
		completed.push(format!("finite retention (window 100, clock ticks of 150 at every position, flush + 2 compactions): {} histories x 2 back-ends, bracketed oracle", lists.len()));
		let mut found = found.into_inner().unwrap();
		found.sort_by_key(|f| f.0);
		for (i, c, t) in found {
			if c == "machinery" {
				eprintln!("machinery: {t}");
				return 2;
			}
			*per_class.entry(c.clone()).or_default() += 1;
			first.entry(c).or_insert((format!("{} => {t}", hops_str(&lists[i])), json!({"engine": "c10-retention", "hops": hops_json(&lists[i])})));
		}
	}
	// --- part 3b: large histories (the version index grows several levels) ---
	{
		let sizes: Vec<(usize, usize)> = if tier == Tier::Quick { vec![(40, 3), (300, 4), (1500, 3)] } else { vec![(40, 3), (300, 4), (1500, 3), (5000, 4), (20000, 2)] };
		let cases: Vec<(bool, usize, usize)> = sizes.iter().flat_map(|(n, r)| [(true, *n, *r), (false, *n, *r)]).collect();
		let res: Vec<((bool, usize, usize), Result<Option<(String, String)>, String>)> =
			cases.par_iter().map(|c| (*c, crate::util::guarded(|| large_history_case(c.0, c.1, c.2)).unwrap_or_else(|p| Ok(Some((format!("large:panic:{}", crate::props::norm_msg(&p)), p)))))).collect();
		for ((index, n, r), x) in res {
			evaluations += 1;
			transitions += (n * r) as u64;
			match x {
				Err(e) => {
					eprintln!("machinery: large history {n}x{r}: {e}");
					return 2;
				}
				Ok(Some((c, t))) => {
					let c = format!("{}:{c}", if index { "index" } else { "lsm" });
					*per_class.entry(c.clone()).or_default() += 1;
					first.entry(c).or_insert((format!("[{} keys x {} versions, {} back-end] {t}", n, r, if index { "version-index" } else { "LSM" }), json!({"engine": "c10-large", "index": index, "keys": n, "rounds": r})));
				}
				Ok(None) => {}
			}
		}
		completed.push(format!("large histories: (keys, versions per key) in {sizes:?} x 2 back-ends: complete history forwards and backwards, get_at for every 7th key at every timestamp; after the writes, after a reopen, after a compaction, after another reopen"));
	}
	// --- part 4: history after a restore ---
	for index in [false, true] {
		for flush_mid in [false, true] {
			evaluations += 1;
			match crate::util::guarded(|| run_restore_history(index, flush_mid)) {
				Ok(Ok(None)) => {}
				Ok(Ok(Some((c, t)))) => {
					let c = format!("{}:{c}", if index { "index" } else { "lsm" });
					*per_class.entry(c.clone()).or_default() += 1;
					first.entry(c).or_insert((format!("set a@10; flush; checkpoint; set a@20; set b@25;{} restore => {t}", if flush_mid { " flush;" } else { "" }), json!({"engine": "c10-restore", "index": index, "flush_mid": flush_mid})));
				}
				Ok(Err(e)) => {
					eprintln!("machinery: restore scenario: {e}");
					return 2;
				}
				Err(p) => {
					let c = format!("restore:panic:{}", crate::props::norm_msg(&p));
					*per_class.entry(c.clone()).or_default() += 1;
					first.entry(c).or_insert((p, json!({"engine": "c10-restore", "index": index, "flush_mid": flush_mid})));
				}
			}
		}
	}
	completed.push("history after checkpoint/restore: 4 scenarios (2 back-ends x discarded timeline flushed or not)".into());
	// --- part 5: process-crash images at every file-system call of an indexed flush workload ---
	// (own budget: the main one is usually used up by the enumeration above in the thorough tier)
	let _ = &budget;
	match run_crash_indexed_flush(&Budget::new(if tier == Tier::Quick { 20.0 } else { 120.0 })) {
		Ok((n, found)) => {
			evaluations += n;
			completed.push(format!("crash during indexed flush/compaction: {n} distinct process-crash images of a 6-write workload with 3 flushes and a compaction"));
			for (c, t) in found {
				*per_class.entry(c.clone()).or_default() += 1;
				first.entry(c).or_insert((t, json!({"engine": "c10-crash"})));
			}
		}
		Err(e) => {
			eprintln!("machinery: crash part: {e}");
			return 2;
		}
	}
	for (class, n) in &per_class {
		let (text, replay) = first.get(class).cloned().unwrap_or_default();
		report.violations.push(Violation {
			class: class.clone(),
			what: text,
			replay,
		});
		for _ in 1..*n {
			report.violations.push(Violation {
				class: class.clone(),
				what: String::new(),
				replay: J::Null,
			});
		}
	}
	report.set("evaluations", json!(evaluations));
	report.set("states", json!(states.len().max(1)));
	report.set("transitions", json!(transitions.max(1)));
	report.set("traces_validated_against_impl", json!(evaluations));
	report.set("distinct_nontrivial", json!(nontrivial));
	report.set("rule", json!("histories = all lists of n writes over {set, soft delete, hard delete, replace} x {a, b} with timestamps 10, 20, ... interleaved with exactly d physical ops from {flush-all, compaction, reopen} (none before the first write; key b only after a has been written); both back-ends per history; after every step get_at for every key x every timestamp point (t-1, t, t+1, 0, 5, max) and history() for tombstones on/off x timestamp ranges (none, all, [t,t], (t,max], [0,t)) x limits (none, 1, 2) forward, and without limit also backward and by seek; states = distinct answer logs; non-trivial = executions with at least one physical op"));
	report.set("samples", json!(["set(a@10) del(a@20) set(a@30) F C", "set(a@10) rep(a@20) O sdel(b@30)"]));
	report.set("bounds_completed", json!(completed));
	report.set("exhaustive", json!(all_complete));
	report.set("failures_per_class", json!(per_class));
	report.assume("strictly increasing timestamps (the property does not say which of two equal-timestamp versions wins); retention 0 (unlimited) in this part");
	report.assume("a limit combined with backward traversal is not judged (the statement does not define which end is trimmed)");
	report.finish()
}

pub fn replay(r: &J) -> i32 {
	surrealkv::verif::set_forced_height(1);
	if r["engine"] == "c10-large" {
		let (index, n, rounds) = (r["index"].as_bool().unwrap_or(true), r["keys"].as_u64().unwrap_or(40) as usize, r["rounds"].as_u64().unwrap_or(3) as usize);
		println!("replaying C10 large history: {n} keys x {rounds} versions, index={index}");
		return match crate::util::guarded(|| large_history_case(index, n, rounds)) {
			Ok(Ok(None)) => {
				println!("replay passed: no violation");
				0
			}
			Ok(Ok(Some((c, t)))) => {
				println!("VIOLATION property=C10 replay=<this file>\n  class={}:{c} {t}", if index { "index" } else { "lsm" });
				1
			}
			Ok(Err(e)) => {
				eprintln!("machinery: {e}");
				2
			}
			Err(p) => {
				println!("VIOLATION property=C10 replay=<this file>\n  class=large:panic {p}");
				1
			}
		};
	}
	// the other single-scenario engines: run the scenario twice, same verdict required
	let simple = |name: &str, f: &dyn Fn() -> Result<Vec<(String, String)>, String>| -> i32 {
		println!("replaying C10 {name}");
		let (a, b) = (f(), f());
		match (a, b) {
			(Ok(a), Ok(b)) => {
				let ca: Vec<&String> = a.iter().map(|x| &x.0).collect();
				let cb: Vec<&String> = b.iter().map(|x| &x.0).collect();
				if ca != cb {
					eprintln!("machinery: replay not deterministic: {ca:?} vs {cb:?}");
					return 2;
				}
				if a.is_empty() {
					println!("replay passed: no violation");
					return 0;
				}
				println!("VIOLATION property=C10 replay=<this file>");
				for (c, t) in a {
					println!("  class={c} {t}");
				}
				1
			}
			(Err(e), _) | (_, Err(e)) => {
				eprintln!("machinery: {e}");
				2
			}
		}
	};
	if r["engine"] == "c10-restore" {
		let (index, flush_mid) = (r["index"].as_bool().unwrap_or(true), r["flush_mid"].as_bool().unwrap_or(false));
		return simple("history after restore", &|| match crate::util::guarded(|| run_restore_history(index, flush_mid)) {
			Ok(r) => r.map(|o| o.into_iter().map(|(c, t)| (format!("{}:{c}", if index { "index" } else { "lsm" }), t)).collect()),
			Err(p) => Ok(vec![("restore:panic".into(), p)]),
		});
	}
	if r["engine"] == "c10-crash" {
		return simple("crash during indexed flush", &|| run_crash_indexed_flush(&Budget::new(600.0)).map(|(_, f)| f));
	}
	if r["engine"] == "c10-retention" {
		let hops = hops_from_json(&r["hops"]);
		return simple(&format!("finite retention: {}", hops_str(&hops)), &|| {
			let mut out = vec![];
			for index in [false, true] {
				match crate::util::guarded(|| run_retention(&hops, 100, index)) {
					Ok(Ok(None)) => {}
					Ok(Ok(Some((c, t)))) => out.push((format!("{}:{c}", if index { "index" } else { "lsm" }), t)),
					Ok(Err(e)) => return Err(e),
					Err(p) => out.push(("retention:panic".into(), p)),
				}
			}
			Ok(out)
		});
	}
	let hops = hops_from_json(&r["hops"]);
	println!("replaying C10 [{}] {}", r["backend"], hops_str(&hops));
	let run = |name: &str| {
		let opt = match name {
			"lsm" => OptSet::base("versioned-lsm").versioned(0, false),
			"lsm-L3" => OptSet::base("versioned-lsm-L3").levels(3).versioned(0, false),
			_ => OptSet::base("versioned-index").versioned(0, true),
		};
		let hold = r["reader_open"].as_bool().unwrap_or(false);
		crate::util::guarded(|| run_history_full(&opt, &hops, false, hold))
	};
	let judge = || -> Result<Option<(String, String)>, String> {
		let mut logs = vec![];
		for name in ["lsm", "index", "lsm-L3"] {
			match run(name) {
				Ok(Ok(x)) => {
					if let Some((c, t)) = x.failure {
						if r["backend"] == name || r["backend"] == "both" {
							return Ok(Some((format!("{name}:{c}"), t)));
						}
					}
					logs.push(x.log_hash_after_writes);
				}
				Ok(Err(e)) => return Err(e),
				Err(p) => return Ok(Some((format!("{name}:panic"), p))),
			}
		}
		if r["backend"] == "both" && logs.len() == 2 {
			let c = logs[0].len().min(logs[1].len());
			if logs[0][..c] != logs[1][..c] {
				return Ok(Some(("backends-disagree".into(), "answers differ".into())));
			}
		}
		Ok(None)
	};
	let a = judge();
	let b = judge();
	match (a, b) {
		(Ok(a), Ok(b)) => {
			if a.as_ref().map(|x| &x.0) != b.as_ref().map(|x| &x.0) {
				eprintln!("machinery: replay not deterministic");
				return 2;
			}
			match a {
				Some((c, t)) => {
					println!("VIOLATION property=C10 replay=<this file>\n  class={c} {t}");
					1
				}
				None => {
					println!("replay passed: no violation");
					0
				}
			}
		}
		(Err(e), _) | (_, Err(e)) => {
			eprintln!("machinery: {e}");
			2
		}
	}
}
