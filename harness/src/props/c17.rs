//! C17 — commits and shutdown always complete.
//!
//! Part 1 (this file): liveness of the write stall with the REAL background task manager. All
//! operation lists up to a length bound over {commit, commit of a value that rotates the memtable,
//! checkpoint (the public call that flushes synchronously), background drain, close+reopen} run
//! on a store whose stall thresholds are the lowest legal ones. A commit that does not return
//! at once is polled again after the runtime has run the background tasks to quiescence, up to
//! a fixed number of rounds: if it is still pending when nothing is left to run, it would hang
//! forever (nothing else can wake it) - a violation. close() must return too.
//! Part 2: the schedule scenarios of `sched.rs` (property "C17").

use serde_json::{json, Value as J};

use crate::model::Write;
use crate::util::{fresh_dir, guarded, Budget, Report, Tier, Violation};
use crate::world::{OptSet, World};

#[derive(Clone, Copy, Debug, PartialEq, Eq)]
pub enum Sop {
	/// small commit
	W,
	/// commit of a value that does not fit what is left of the memtable (rotation inside apply)
	Big,
	/// commit of a value larger than the whole memtable: must fail cleanly (BatchTooLarge)
	TooBig,
	/// create_checkpoint into a scratch directory (flushes every memtable synchronously)
	Checkpoint,
	/// run the background tasks until quiescent
	Drain,
	Reopen,
}

fn sop_str(o: &Sop) -> &'static str {
	match o {
		Sop::W => "commit",
		Sop::Big => "big-commit",
		Sop::TooBig => "oversize-commit",
		Sop::Checkpoint => "checkpoint",
		Sop::Drain => "drain",
		Sop::Reopen => "reopen",
	}
}

fn parse(s: &str) -> Sop {
	match s {
		"commit" => Sop::W,
		"big-commit" => Sop::Big,
		"oversize-commit" => Sop::TooBig,
		"checkpoint" => Sop::Checkpoint,
		"drain" => Sop::Drain,
		_ => Sop::Reopen,
	}
}

fn opt() -> OptSet {
	opt_levels(2)
}

fn opt_levels(levels: u8) -> OptSet {
	let mut o = OptSet::base(if levels == 2 { "L2-memtable4k-stall-low" } else { "L3-memtable4k-stall-low" }).levels(levels).memtable_size(4096);
	o.memtable_stall = 2;
	o.l0_stall = 2;
	o.level0_max_files = 2;
	o
}

/// A commit driven like an application would: poll, let the background tasks run, poll again.
fn commit_live(w: &mut World, key: &[u8], val: &[u8]) -> Result<Result<(), String>, String> {
	use std::future::Future;
	use std::task::{Context, Poll};
	let mut txn = {
		let _g = w.rt.as_ref().unwrap().enter();
		w.tree().begin().map_err(|e| format!("begin: {e}"))?
	};
	txn.set(key, val).map_err(|e| format!("set: {e}"))?;
	let waker = futures_noop_waker();
	let mut cx = Context::from_waker(&waker);
	let mut fut = Box::pin(txn.commit());
	for _round in 0..40 {
		let p = {
			let _g = w.rt.as_ref().unwrap().enter();
			fut.as_mut().poll(&mut cx)
		};
		match p {
			Poll::Ready(r) => {
				drop(fut);
				return Ok(r.map_err(|e| format!("{e}")));
			}
			Poll::Pending => {
				// everything that could wake the commit runs on the store's runtime
				let before = surrealkv::verif::bg_progress_count();
				w.drain();
				if std::env::var("VERIF_DEBUG").is_ok() {
					eprintln!("   pending commit, after drain: stall counts {:?}, shape {:?}, bg progress {} -> {}", w.tree().verif_stall_counts(), w.shape().map(|s| (s.immutables.len(), s.levels.iter().map(|l| l.len()).collect::<Vec<_>>())), before, surrealkv::verif::bg_progress_count());
				}
				if surrealkv::verif::bg_progress_count() == before {
					// nothing ran: one more poll decides
					let p = {
						let _g = w.rt.as_ref().unwrap().enter();
						fut.as_mut().poll(&mut cx)
					};
					if let Poll::Ready(r) = p {
						drop(fut);
						return Ok(r.map_err(|e| format!("{e}")));
					}
					// diagnosis: would further compaction rounds (that nobody has scheduled) free it?
					for extra in 1..=8 {
						let _ = w.physical(crate::world::Phys::Compact);
						let p = {
							let _g = w.rt.as_ref().unwrap().enter();
							fut.as_mut().poll(&mut cx)
						};
						if let Poll::Ready(_) = p {
							drop(fut);
							return Ok(Err(format!("HANG-UNTIL-EXTRA-ROUNDS:{extra}")));
						}
					}
					drop(fut);
					return Ok(Err("HANG".into()));
				}
			}
		}
	}
	drop(fut);
	Ok(Err("HANG".into()))
}

fn futures_noop_waker() -> std::task::Waker {
	use std::task::{RawWaker, RawWakerVTable, Waker};
	fn no(_: *const ()) {}
	fn clone(_: *const ()) -> RawWaker {
		RawWaker::new(std::ptr::null(), &VT)
	}
	static VT: RawWakerVTable = RawWakerVTable::new(clone, no, no, no);
	unsafe { Waker::from_raw(RawWaker::new(std::ptr::null(), &VT)) }
}

pub fn run_list(ops: &[Sop]) -> Result<Option<(String, String)>, String> {
	run_list_on(ops, 2)
}

pub fn run_list_on(ops: &[Sop], levels: u8) -> Result<Option<(String, String)>, String> {
	let r = guarded(|| -> Result<Option<(String, String)>, String> {
		let mut w = World::new(opt_levels(levels), &[])?;
		let mut n = 0usize;
		for (i, op) in ops.iter().enumerate() {
			if std::env::var("VERIF_DEBUG").is_ok() {
				eprintln!("before step {i} {}: stall counts {:?}, shape {:?}", sop_str(op), w.tree().verif_stall_counts(), w.shape().map(|s| (s.immutables.len(), s.levels.iter().map(|l| l.len()).collect::<Vec<_>>())));
			}
			let ctx = |t: String| format!("step {i} {}: {t}", sop_str(op));
			match op {
				Sop::W | Sop::Big => {
					n += 1;
					let val = if *op == Sop::Big { vec![b'v'; 3000] } else { format!("v{n}").into_bytes() };
					match commit_live(&mut w, format!("k{n:03}").as_bytes(), &val)? {
						Ok(()) => {}
						Err(e) if e.starts_with("HANG-UNTIL-EXTRA-ROUNDS") => {
							let (imm, l0) = w.tree().verif_stall_counts();
							return Ok(Some(("commit-waits-for-a-compaction-round-nobody-schedules".into(), ctx(format!("commit() stays pending after the background tasks ran to quiescence; it returns once {} more compaction round(s) are run by hand (now {imm} immutable memtables, {l0} level-0 tables): the level task runs one round per wake-up and that round compacted another level", e.rsplit(':').next().unwrap_or("?"))))));
						}
						Err(e) if e == "HANG" => {
							let (imm, l0) = w.tree().verif_stall_counts();
							if std::env::var("VERIF_DEBUG").is_ok() {
								let r = w.physical(crate::world::Phys::Compact);
								eprintln!("   manual compaction round after the hang: {:?}, shape {:?}", r, w.shape().map(|s| (s.immutables.len(), s.levels.iter().map(|l| l.len()).collect::<Vec<_>>())));
							}
							return Ok(Some(("commit-never-returns".into(), ctx(format!("commit() is still pending after the background tasks ran to quiescence ({imm} immutable memtables, {l0} level-0 tables): nothing is left that could wake it")))));
						}
						Err(e) => return Ok(Some((format!("commit-error:{}", crate::props::norm_msg(&e).chars().take(50).collect::<String>()), ctx(e)))),
					}
				}
				Sop::TooBig => {
					n += 1;
					match commit_live(&mut w, format!("k{n:03}").as_bytes(), &vec![b'x'; 9000])? {
						Ok(()) => return Ok(Some(("oversize-commit-acknowledged".into(), ctx("a 9000-byte value was committed into a 4 KiB memtable".into())))),
						Err(e) if e == "HANG" => return Ok(Some(("commit-never-returns".into(), ctx("oversize commit is still pending after the background tasks ran to quiescence".into())))),
						Err(_) => {}
					}
				}
				Sop::Checkpoint => {
					let d = fresh_dir("c17-ck");
					let r = {
						let _g = w.rt.as_ref().unwrap().enter();
						w.tree().create_checkpoint(&d).map(|_| ()).map_err(|e| format!("{e}"))
					};
					let _ = std::fs::remove_dir_all(&d);
					if let Err(e) = r {
						return Ok(Some((format!("checkpoint-error:{}", crate::props::norm_msg(&e).chars().take(50).collect::<String>()), ctx(e))));
					}
				}
				Sop::Drain => w.drain(),
				Sop::Reopen => {
					if let Err(e) = w.reopen() {
						return Ok(Some((format!("reopen-error:{}", crate::props::norm_msg(&e).chars().take(50).collect::<String>()), ctx(e))));
					}
				}
			}
		}
		w.close().map_err(|e| format!("close: {e}"))?;
		Ok(None)
	});
	match r {
		Ok(x) => x,
		Err(p) => Ok(Some((format!("panic:{}", crate::props::norm_msg(&p)), p))),
	}
}

fn gen(maxlen: usize) -> Vec<Vec<Sop>> {
	let alpha = [Sop::W, Sop::Big, Sop::Checkpoint, Sop::Drain, Sop::Reopen];
	let mut out = vec![];
	fn rec(alpha: &[Sop], maxlen: usize, cur: &mut Vec<Sop>, out: &mut Vec<Vec<Sop>>) {
		if !cur.is_empty() && matches!(cur.last(), Some(Sop::W) | Some(Sop::Big)) {
			out.push(cur.clone());
		}
		if cur.len() == maxlen {
			return;
		}
		for a in alpha {
			// nothing to flush, drain or reopen on an empty store
			if cur.is_empty() && !matches!(a, Sop::W | Sop::Big) {
				continue;
			}
			if cur.last() == Some(&Sop::Drain) && *a == Sop::Drain {
				continue;
			}
			cur.push(*a);
			rec(alpha, maxlen, cur, out);
			cur.pop();
		}
	}
	rec(&alpha, maxlen, &mut vec![], &mut out);
	// deeper lists over the operations that build level shapes (rotating commits, reopen,
	// checkpoint): every prefix of length 6 and 7 that starts with a rotating commit, then one small
	// commit that must return (level-0 tables pile up to the stall limit along the way)
	{
		let deep = [Sop::Big, Sop::Reopen, Sop::Checkpoint];
		for n in [6usize, 7] {
			if n < maxlen {
				continue; // already part of the full enumeration
			}
			let mut idx = vec![0usize; n - 1];
			'deep: loop {
				let mut l = vec![Sop::Big];
				l.extend(idx.iter().map(|i| deep[*i]));
				l.push(Sop::W);
				out.push(l);
				for p in (0..idx.len()).rev() {
					idx[p] += 1;
					if idx[p] < deep.len() {
						continue 'deep;
					}
					idx[p] = 0;
				}
				break;
			}
		}
	}
	// runs of failing commits (more than the commit queue has slots), then a normal one
	for k in 1..=12usize {
		for prefix in [vec![], vec![Sop::W], vec![Sop::W, Sop::Drain]] {
			let mut l = prefix.clone();
			l.extend(std::iter::repeat(Sop::TooBig).take(k));
			l.push(Sop::W);
			out.push(l.clone());
			l.push(Sop::Reopen);
			l.push(Sop::W);
			out.push(l);
		}
	}
	out.sort_by_key(|l| l.len());
	out
}

pub fn check(tier: Tier) -> i32 {
	use rayon::prelude::*;
	surrealkv::verif::set_forced_height(1);
	let mut report = Report::new("C17", tier, "model_checking");
	let budget = Budget::new(if tier == Tier::Quick { 22.0 } else { 200.0 });
	let maxlen = if tier == Tier::Quick { 6 } else { 8 };
	let lists = gen(maxlen);
	let results: Vec<(usize, Result<Option<(String, String)>, String>)> = lists
		.par_iter()
		.enumerate()
		.map(|(i, l)| {
			if budget.exhausted() {
				return (i, Ok(Some(("skipped".to_string(), String::new()))));
			}
			// two level counts: with 2 the first level below level 0 is the last one, with 3 it is not
			match run_list_on(l, 2) {
				Ok(None) => (i, run_list_on(l, 3).map(|v| v.map(|(c, t)| (format!("L3:{c}"), t)))),
				other => (i, other),
			}
		})
		.collect();
	let mut done = 0u64;
	let mut seen = std::collections::BTreeSet::new();
	let mut per_class: std::collections::BTreeMap<String, u64> = Default::default();
	let mut failing: Vec<String> = vec![];
	for (i, r) in results {
		match r {
			Err(e) => {
				eprintln!("machinery: {e}");
				return 2;
			}
			Ok(Some((c, _))) if c == "skipped" => {}
			Ok(v) => {
				done += 1;
				if let Some((class, text)) = v {
					let class = format!("sequential:{class}");
					let lv = if class.contains("L3:") { 3 } else { 2 };
					*per_class.entry(class.clone()).or_default() += 1;
					if failing.len() < 40 {
						failing.push(lists[i].iter().map(sop_str).collect::<Vec<_>>().join(" "));
					}
					let first = seen.insert(class.clone());
					let l: Vec<&str> = lists[i].iter().map(sop_str).collect();
					report.violations.push(Violation {
						class,
						what: if first { format!("[{}] {} => {text}", opt().name, l.join(" ")) } else { String::new() },
						replay: if first { json!({"engine": "c17-seq", "ops": l, "levels": lv}) } else { J::Null },
					});
				}
			}
		}
	}
	report.violations.sort_by_key(|v| v.what.is_empty());
	let seq_complete = done as usize == lists.len();
	report.set("sequential_lists", json!(done));
	report.set("sequential_failures_per_class", json!(per_class));
	report.set("sequential_failing_lists", json!(failing));
	// part 3: real task manager on a multi-thread runtime, level task held at a gate
	let par_budget = Budget::new(if tier == Tier::Quick { 25.0 } else { 400.0 });
	let par_cases = crate::props::c17par::cases(tier);
	let (mut par_done, mut par_held, mut par_inconclusive) = (0u64, 0u64, 0u64);
	let mut par_during: std::collections::BTreeMap<String, u64> = Default::default();
	let mut par_seen = std::collections::BTreeSet::new();
	for c in &par_cases {
		if par_budget.exhausted() {
			break;
		}
		match crate::props::c17par::run_guarded(c) {
			Err(e) => {
				eprintln!("machinery: {e}");
				return 2;
			}
			Ok(crate::props::c17par::Outcome::Held(h, d)) => {
				par_done += 1;
				if h {
					par_held += 1;
					*par_during.entry(format!("{}:{d}", crate::props::c17par::GATES[c.gate])).or_default() += 1;
				}
			}
			Ok(crate::props::c17par::Outcome::Inconclusive(s)) => {
				par_inconclusive += 1;
				eprintln!("note: C17 parallel case {c:?} inconclusive: {s}");
			}
			Ok(crate::props::c17par::Outcome::Violation(class, text)) => {
				par_done += 1;
				let class = format!("parallel:{class}");
				let first = par_seen.insert(class.clone());
				report.violations.push(Violation {
					class,
					what: if first { format!("[{c:?}] {text}") } else { String::new() },
					replay: if first { crate::props::c17par::case_json(c) } else { J::Null },
				});
			}
		}
	}
	report.violations.sort_by_key(|v| v.what.is_empty());
	let par_complete = par_done as usize == par_cases.len();
	report.set("parallel_cases", json!(par_done));
	report.set("parallel_cases_level_task_held", json!(par_held));
	report.set("parallel_cases_inconclusive", json!(par_inconclusive));
	report.set("parallel_flushes_inside_held_round", json!(par_during));
	let code = crate::props::sched::run_into(&mut report, "C17", tier, if tier == Tier::Quick { 40.0 } else { 800.0 });
	if code != 0 {
		return code;
	}
	report.add_u("evaluations", done);
	let ex = report.coverage.get("exhaustive").and_then(|v| v.as_bool()).unwrap_or(true);
	report.set("exhaustive", json!(ex && seq_complete && par_complete));
	report.add_u("evaluations", par_done);
	let mut b: Vec<J> = vec![json!(format!("sequential stall-liveness part: {} of {} operation lists of length <= {maxlen} over {{commit, big-commit, checkpoint, drain, reopen}} with the real background task manager (memtable stall 2, level-0 stall 2), on 2 and on 3 levels; the lists include runs of 1-12 oversize (failing) commits and{}", done, lists.len(), if maxlen < 8 { " every list big-commit + 5 or 6 operations over {big-commit, reopen, checkpoint} + commit (lengths 7 and 8)" } else { " nothing beyond the full enumeration" }))];
	b.push(json!(format!("parallel wake-up part: {par_done} of {} cases {{gate place (3) x rounds before the held one x flushes ending inside the held round (0..4) x level count (2, 3)}} with the real task manager on a 2-worker runtime; level task held in {par_held}; {par_inconclusive} inconclusive (not counted)", par_cases.len())));
	if let Some(a) = report.coverage.get("schedule_bounds_completed").and_then(|v| v.as_array()) {
		b.extend(a.iter().cloned());
	}
	report.set("bounds_completed", json!(b));
	report.finish()
}

pub fn replay(r: &J) -> i32 {
	surrealkv::verif::set_forced_height(1);
	let ops: Vec<Sop> = r["ops"].as_array().unwrap().iter().map(|s| parse(s.as_str().unwrap_or(""))).collect();
	println!("replaying C17 sequential list {}", ops.iter().map(sop_str).collect::<Vec<_>>().join(" "));
	let levels = r["levels"].as_u64().unwrap_or(2) as u8;
	match (run_list_on(&ops, levels), run_list_on(&ops, levels)) {
		(Ok(a), Ok(b)) => {
			if a.as_ref().map(|x| &x.0) != b.as_ref().map(|x| &x.0) {
				eprintln!("machinery: replay not deterministic");
				return 2;
			}
			match a {
				Some((c, t)) => {
					println!("VIOLATION property=C17 replay=<this file>\n  class=sequential:{c} {t}");
					1
				}
				None => {
					println!("replay passed: no violation");
					0
				}
			}
		}
		(Err(e), _) | (_, Err(e)) => {
			eprintln!("machinery: {e}");
			2
		}
	}
}
