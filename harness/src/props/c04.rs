//! C04 — no lost updates: first committer wins.
//!
//! Part A (this file): bounded-exhaustive event lists on the real `CommitOracle` +
//! `ActiveTxnTracker` (through the `VOracle` facade), with the GC throttle forced down to a small
//! interval so that the real gate and sweep run constantly. The harness plays the commit pipeline's
//! critical section (check → allocate → publish → [apply ok | apply fails → rollback]) exactly as
//! `CommitPipeline::commit` orders it. Oracle: a full-history ConflictModel.
//! Part B (store level, sequential): the same event lists on the real store through
//! `Tree::begin` / `Transaction::commit`, so the pipeline's own wiring (watermark source,
//! clamping, release of the slot) is exercised too; final state must equal the KvModel of the
//! successful commits.

use std::collections::BTreeMap;
use std::sync::Mutex;

use rayon::prelude::*;
use serde_json::{json, Value as J};
use surrealkv::verif::{VOracle, VTxnSlot};
use surrealkv::{Durability, Error, Mode};

use crate::util::{poll_now, Budget, Polled, Report, Tier, Violation};
use crate::world::{OptSet, World};

#[derive(Clone, Copy, Debug, PartialEq, Eq, Hash)]
pub enum Ev {
	Begin,
	/// commit of live transaction #i (index into the live list, oldest first) writing key set
	/// (bit0 = a, bit1 = b); `fail` = the memtable apply fails after publish (oracle rollback)
	Commit(u8, u8, bool),
	/// commit of live transaction #i on the key set whose commit-log write fails (store part only)
	CommitWalFail(u8, u8),
	Abort(u8),
	/// a read-only observer at the current horizon begins / ends (affects only the watermark)
	Pin,
	Unpin,
}

fn ev_str(e: &Ev) -> String {
	match e {
		Ev::Begin => "begin".into(),
		Ev::Commit(i, k, f) => format!("commit#{i}{{{}}}{}", ["", "a", "b", "a,b"][*k as usize], if *f { "!apply-fails" } else { "" }),
		Ev::CommitWalFail(i, k) => format!("commit#{i}{{{}}}!wal-write-fails", ["", "a", "b", "a,b"][*k as usize]),
		Ev::Abort(i) => format!("abort#{i}"),
		Ev::Pin => "pin".into(),
		Ev::Unpin => "unpin".into(),
	}
}

fn keyset(mask: u8) -> Vec<&'static [u8]> {
	let mut v: Vec<&'static [u8]> = vec![];
	if mask & 1 != 0 {
		v.push(b"a");
	}
	if mask & 2 != 0 {
		v.push(b"b");
	}
	v
}

/// Full history model.
#[derive(Default, Clone)]
struct ConflictModel {
	/// successful commits: (commit_seq_last, key mask)
	committed: Vec<(u64, u8)>,
}

impl ConflictModel {
	/// is there a committed transaction with commit seq > start that shares a key?
	fn real_conflict(&self, start: u64, mask: u8) -> bool {
		self.committed.iter().any(|(s, m)| *s > start && (m & mask) != 0)
	}
}

struct Live {
	start: u64,
	_slot: VTxnSlot,
}

/// Execute one event list on a fresh real oracle; returns (class, text) of the first violation.
fn run_oracle(events: &[Ev]) -> Option<(String, String)> {
	let o = VOracle::new();
	let mut model = ConflictModel::default();
	let mut live: Vec<Live> = vec![];
	let mut pins: Vec<Live> = vec![];
	let mut visible: u64 = 0;
	let mut next_seq: u64 = 1;
	for (step, e) in events.iter().enumerate() {
		match e {
			Ev::Begin => {
				live.push(Live {
					start: visible,
					_slot: o.register(visible),
				});
			}
			Ev::Pin => pins.push(Live {
				start: visible,
				_slot: o.register(visible),
			}),
			Ev::Unpin => {
				if !pins.is_empty() {
					pins.remove(0);
				}
			}
			Ev::Abort(i) => {
				live.remove(*i as usize);
			}
			Ev::CommitWalFail(..) => return Some(("machinery".into(), "the oracle part does not take commit-log failures".into())),
			Ev::Commit(i, mask, apply_fails) => {
				let t = live.remove(*i as usize);
				let keys = keyset(*mask);
				let r = o.check(&keys, t.start);
				let conflict = model.real_conflict(t.start, *mask);
				match &r {
					Ok(()) => {
						if conflict {
							return Some((
								"lost-update".into(),
								format!("step {step} {}: commit admitted although a transaction that committed after its begin (start={}) wrote a shared key; history {:?}", ev_str(e), t.start, model.committed),
							));
						}
						let count = keys.len() as u64;
						let seq = next_seq;
						next_seq += count;
						// watermark exactly as the pipeline computes it: oldest live (incl. the
						// committing one, still registered) clamped by its own start
						let oldest = o.oldest_active().unwrap_or(visible).min(t.start);
						o.publish(&keys, seq, count, oldest);
						let stamp = seq + count - 1;
						if *apply_fails {
							o.rollback(&keys, stamp);
						} else {
							visible = stamp;
							model.committed.push((stamp, *mask));
						}
					}
					Err(kind) if kind == "conflict" => {
						if !conflict {
							return Some((
								"false-conflict".into(),
								format!("step {step} {}: conflict reported but no transaction that committed after its begin (start={}) wrote any of its keys; history {:?}; oracle {:?}", ev_str(e), t.start, model.committed, o.state()),
							));
						}
					}
					Err(kind) if kind == "retry" => {
						// every transaction here was registered at begin, before any sweep
						return Some((
							"retry-for-registered-txn".into(),
							format!("step {step} {}: TransactionRetry for a transaction registered since its begin (start={}); oracle {:?}", ev_str(e), t.start, o.state()),
						));
					}
					Err(other) => return Some(("oracle-error".into(), format!("step {step}: {other}"))),
				}
				drop(t);
			}
		}
		// invariant: kept_since never exceeds the start of a registered transaction
		let (_, kept_since, _) = o.state();
		if let Some(min_start) = live.iter().chain(pins.iter()).map(|l| l.start).min() {
			if kept_since > min_start {
				return Some((
					"gc-past-live-txn".into(),
					format!("step {step} {}: kept_since={kept_since} exceeds the start {min_start} of a registered transaction", ev_str(e)),
				));
			}
		}
	}
	None
}

/// The same event list on the real store (sequential): begin = Tree::begin (ReadWrite, or
/// WriteOnly for every second transaction), commit = Transaction::commit of sets on the keys.
fn run_store(events: &[Ev], opt: &OptSet) -> Result<Option<(String, String)>, String> {
	let mut w = World::new(opt.clone(), &[b"a", b"b"])?;
	let _g = w.rt.as_ref().unwrap().enter();
	let tree = w.tree().clone();
	let mut model = ConflictModel::default();
	let mut kv: BTreeMap<Vec<u8>, Vec<u8>> = BTreeMap::new();
	let mut live: Vec<(surrealkv::Transaction, u64)> = vec![];
	let mut pins: Vec<surrealkv::Transaction> = vec![];
	let mut nbegun = 0;
	for (step, e) in events.iter().enumerate() {
		match e {
			Ev::Begin => {
				let mode = if nbegun % 2 == 1 { Mode::WriteOnly } else { Mode::ReadWrite };
				nbegun += 1;
				let t = tree.begin_with_mode(mode).map_err(|e| format!("{e}"))?;
				// logical time, independent of the store's own sequence numbers: a transaction
				// begins "at" the number of commits that have succeeded so far
				let s = model.committed.len() as u64;
				live.push((t, s));
			}
			Ev::Pin => pins.push(tree.begin_with_mode(Mode::ReadOnly).map_err(|e| format!("{e}"))?),
			Ev::Unpin => {
				if !pins.is_empty() {
					pins.remove(0);
				}
			}
			Ev::Abort(i) => {
				let (mut t, _) = live.remove(*i as usize);
				t.rollback();
			}
			Ev::Commit(..) | Ev::CommitWalFail(..) => {
				let (i, mask, apply_fails, wal_fails) = match e {
					Ev::Commit(i, m, f) => (i, m, f, false),
					Ev::CommitWalFail(i, m) => (i, m, &false, true),
					_ => unreachable!(),
				};
				let (mut t, start) = live.remove(*i as usize);
				t.set_durability(Durability::Eventual);
				let val = format!("v{step}").into_bytes();
				for k in keyset(*mask) {
					t.set(k, val.as_slice()).map_err(|e| format!("{e}"))?;
				}
				if *apply_fails {
					surrealkv::verif::arm_fail_point(Some(surrealkv::verif::FailSpec {
						point: "commit.apply",
						nth: 1,
						persistent: false,
					}));
				}
				if wal_fails {
					// the failing transaction also writes its first key twice (before and after a
					// savepoint): the batch then carries the key twice, which the rollback of its
					// conflict-map entries has to cope with
					let k0 = keyset(*mask)[0];
					t.set_savepoint().map_err(|e| format!("{e}"))?;
					t.set(k0, b"second-write-of-the-key").map_err(|e| format!("{e}"))?;
					surrealkv::verif::arm_fail_point(Some(surrealkv::verif::FailSpec {
						point: "commit.wal",
						nth: 1,
						persistent: false,
					}));
				}
				let r = match poll_now(t.commit()) {
					Polled::Ready(r) => r,
					Polled::WouldBlock => return Err("commit would block".into()),
				};
				surrealkv::verif::arm_fail_point(None);
				let conflict = model.real_conflict(start, *mask);
				let apply_fails = &(*apply_fails || wal_fails);
				match r {
					Ok(()) => {
						if *apply_fails {
							return Ok(Some(("failed-apply-acknowledged".into(), format!("step {step} {}: commit returned Ok although the apply failed", ev_str(e)))));
						}
						if conflict {
							return Ok(Some(("lost-update".into(), format!("step {step} {}: commit admitted (start={start}) although a later-committed transaction wrote a shared key; history {:?}", ev_str(e), model.committed))));
						}
						let seq = model.committed.len() as u64 + 1;
						model.committed.push((seq, *mask));
						for k in keyset(*mask) {
							kv.insert(k.to_vec(), val.clone());
						}
					}
					Err(Error::TransactionWriteConflict) => {
						if !conflict {
							return Ok(Some(("false-conflict".into(), format!("step {step} {}: conflict reported (start={start}) without a later committer on its keys; history {:?}", ev_str(e), model.committed))));
						}
					}
					Err(Error::TransactionRetry) => {
						return Ok(Some(("retry-for-registered-txn".into(), format!("step {step} {}: TransactionRetry (start={start})", ev_str(e)))));
					}
					Err(err) => {
						if !*apply_fails {
							return Ok(Some(("commit-error".into(), format!("step {step} {}: {err}", ev_str(e)))));
						}
					}
				}
			}
		}
		// the committed state as seen by a fresh reader
		let rd = tree.begin_with_mode(Mode::ReadOnly).map_err(|e| format!("{e}"))?;
		for k in [b"a" as &[u8], b"b"] {
			let got = rd.get(k).map_err(|e| format!("{e}"))?;
			if got != kv.get(k).cloned() {
				return Ok(Some((
					"failed-or-conflicting-commit-visible".into(),
					format!("step {step} {}: get({}) = {:?}, expected {:?}", ev_str(e), String::from_utf8_lossy(k), got.map(|v| String::from_utf8_lossy(&v).to_string()), kv.get(k).map(|v| String::from_utf8_lossy(v).to_string())),
				)));
			}
		}
	}
	drop(live);
	drop(pins);
	drop(_g);
	Ok(None)
}

/// All event lists of exactly `len` events with at most `max_live` transactions live at once and
/// at most `max_txn` transactions in total.
fn gen(len: usize, max_live: usize, max_txn: usize, with_fail: bool, with_pins: bool, store_failures: bool) -> Vec<Vec<Ev>> {
	let mut out = vec![];
	#[allow(clippy::too_many_arguments)]
	fn rec(len: usize, max_live: usize, max_txn: usize, with_fail: bool, with_pins: bool, store_failures: bool, live: usize, begun: usize, pins: usize, cur: &mut Vec<Ev>, out: &mut Vec<Vec<Ev>>) {
		if cur.len() == len {
			out.push(cur.clone());
			return;
		}
		if live < max_live && begun < max_txn {
			cur.push(Ev::Begin);
			rec(len, max_live, max_txn, with_fail, with_pins, store_failures, live + 1, begun + 1, pins, cur, out);
			cur.pop();
		}
		for i in 0..live {
			for mask in 1..=3u8 {
				for fail in [false, true] {
					if fail && (!with_fail || (mask == 3 && !store_failures)) {
						continue;
					}
					cur.push(Ev::Commit(i as u8, mask, fail));
					rec(len, max_live, max_txn, with_fail, with_pins, store_failures, live - 1, begun, pins, cur, out);
					cur.pop();
				}
			}
			if store_failures && with_fail {
				// a failing commit-log write: on the two-key batch and on one single-key batch
				for mask in [3u8, 1] {
					cur.push(Ev::CommitWalFail(i as u8, mask));
					rec(len, max_live, max_txn, with_fail, with_pins, store_failures, live - 1, begun, pins, cur, out);
					cur.pop();
				}
			}
			cur.push(Ev::Abort(i as u8));
			rec(len, max_live, max_txn, with_fail, with_pins, store_failures, live - 1, begun, pins, cur, out);
			cur.pop();
		}
		if with_pins {
			if pins < 1 {
				cur.push(Ev::Pin);
				rec(len, max_live, max_txn, with_fail, with_pins, store_failures, live, begun, pins + 1, cur, out);
				cur.pop();
			} else {
				cur.push(Ev::Unpin);
				rec(len, max_live, max_txn, with_fail, with_pins, store_failures, live, begun, pins - 1, cur, out);
				cur.pop();
			}
		}
	}
	rec(len, max_live, max_txn, with_fail, with_pins, store_failures, 0, 0, 0, &mut vec![], &mut out);
	out
}

fn replay_json(part: &str, gc: u32, evs: &[Ev]) -> J {
	json!({"engine": "c04", "part": part, "gc_interval": gc,
		"events": evs.iter().map(|e| match e {
			Ev::Begin => json!("begin"), Ev::Pin => json!("pin"), Ev::Unpin => json!("unpin"),
			Ev::Abort(i) => json!({"abort": i}), Ev::Commit(i, k, f) => json!({"commit": [i, k, f]}), Ev::CommitWalFail(i, k) => json!({"commit_wal_fail": [i, k]}),
		}).collect::<Vec<_>>()})
}

fn events_from_json(j: &J) -> Vec<Ev> {
	j.as_array()
		.unwrap()
		.iter()
		.map(|e| match e {
			J::String(s) => match s.as_str() {
				"begin" => Ev::Begin,
				"pin" => Ev::Pin,
				_ => Ev::Unpin,
			},
			o => {
				if let Some(a) = o.get("abort") {
					Ev::Abort(a.as_u64().unwrap() as u8)
				} else if let Some(c) = o.get("commit_wal_fail") {
					Ev::CommitWalFail(c[0].as_u64().unwrap() as u8, c[1].as_u64().unwrap() as u8)
				} else {
					let c = &o["commit"];
					Ev::Commit(c[0].as_u64().unwrap() as u8, c[1].as_u64().unwrap() as u8, c[2].as_bool().unwrap())
				}
			}
		})
		.collect()
}

pub fn check(tier: Tier) -> i32 {
	surrealkv::verif::set_forced_height(1);
	let mut report = Report::new("C04", tier, "model_checking");
	let budget = Budget::new(if tier == Tier::Quick { 30.0 } else { 500.0 });
	let (oracle_len, store_len) = if tier == Tier::Quick { (9, 7) } else { (11, 9) };
	let mut evaluations = 0u64;
	let mut transitions = 0u64;
	let mut completed = vec![];
	let mut all_complete = true;
	let mut per_class: BTreeMap<String, u64> = BTreeMap::new();
	let mut first: BTreeMap<String, (String, J)> = BTreeMap::new();
	let mut outcomes: std::collections::HashSet<u64> = Default::default();
	// Part A: real oracle
	// (length-major, so that a time cap cuts both GC intervals at the same length)
	'a: for len in 1..=oracle_len {
		for gc in [2u32, 3] {
			surrealkv::verif::set_gc_interval(gc);
			if budget.elapsed() > budget.cap() * 0.6 {
				all_complete = false;
				completed.push(format!("oracle: gc_interval={gc}: stopped before len={len} (time share used)"));
				break 'a;
			}
			let lists = gen(len, 3, 4, true, true, false);
			let found: Mutex<Vec<(usize, String, String)>> = Mutex::new(vec![]);
			lists.par_iter().enumerate().for_each(|(i, l)| {
				let r = crate::util::guarded(|| run_oracle(l)).unwrap_or_else(|p| Some((format!("panic:{}", crate::props::norm_msg(&p)), p)));
				if let Some((c, t)) = r {
					found.lock().unwrap().push((i, c, t));
				}
			});
			evaluations += lists.len() as u64;
			transitions += (lists.len() * len) as u64;
			let mut found = found.into_inner().unwrap();
			found.sort_by_key(|f| f.0);
			for (i, c, t) in found {
				*per_class.entry(c.clone()).or_default() += 1;
				first.entry(c).or_insert((format!("[oracle gc_interval={gc}] {} => {t}", lists[i].iter().map(ev_str).collect::<Vec<_>>().join(" ")), replay_json("oracle", gc, &lists[i])));
			}
			outcomes.insert(lists.len() as u64);
			completed.push(format!("oracle: gc_interval={gc} len={len}: {} event lists", lists.len()));
		}
	}
	// Part B: real store, sequential
	let opt = OptSet::base("L2");
	'b: for len in 2..=store_len {
		for gc in [2u32, 3] {
			surrealkv::verif::set_gc_interval(gc);
			if budget.exhausted() {
				all_complete = false;
				completed.push(format!("store: gc_interval={gc}: stopped before len={len} (time cap)"));
				break 'b;
			}
			let lists = gen(len, 3, 4, true, true, true);
			let found: Mutex<Vec<(usize, String, String)>> = Mutex::new(vec![]);
			lists.par_iter().enumerate().for_each(|(i, l)| {
				let r = crate::util::guarded(|| run_store(l, &opt));
				let r = match r {
					Ok(Ok(x)) => x,
					Ok(Err(e)) => Some(("machinery".into(), e)),
					Err(p) => Some((format!("panic:{}", crate::props::norm_msg(&p)), p)),
				};
				if let Some((c, t)) = r {
					found.lock().unwrap().push((i, c, t));
				}
			});
			evaluations += lists.len() as u64;
			transitions += (lists.len() * len) as u64;
			let mut found = found.into_inner().unwrap();
			found.sort_by_key(|f| f.0);
			for (i, c, t) in found {
				if c == "machinery" {
					eprintln!("machinery: {t}");
					return 2;
				}
				*per_class.entry(c.clone()).or_default() += 1;
				first.entry(c).or_insert((format!("[store gc_interval={gc}] {} => {t}", lists[i].iter().map(ev_str).collect::<Vec<_>>().join(" ")), replay_json("store", gc, &lists[i])));
			}
			completed.push(format!("store: gc_interval={gc} len={len}: {} event lists", lists.len()));
		}
	}
	surrealkv::verif::set_gc_interval(0);
	for (class, n) in &per_class {
		let (text, replay) = first.get(class).cloned().unwrap_or_default();
		report.violations.push(Violation {
			class: class.clone(),
			what: text,
			replay,
		});
		for _ in 1..*n {
			report.violations.push(Violation {
				class: class.clone(),
				what: String::new(),
				replay: J::Null,
			});
		}
	}
	report.set("evaluations", json!(evaluations));
	report.set("states", json!(evaluations.max(1)));
	report.set("transitions", json!(transitions.max(1)));
	report.set("traces_validated_against_impl", json!(evaluations));
	report.set("distinct_nontrivial", json!(evaluations));
	report.set("rule", json!("event lists over {begin, commit #i {a|b|a,b} [apply fails], abort #i, pin/unpin a read-only observer} with <= 3 live and <= 4 transactions; part A on the real CommitOracle+ActiveTxnTracker with the GC throttle forced to 2 and 3 (the real gate and sweep run), part B on the real store through begin/commit (alternating read-write / write-only transactions); each list is one distinct execution"));
	report.set("samples", json!(["begin begin commit#0{a} commit#0{a}", "begin pin commit#0{a,b} begin unpin begin commit#1{b} commit#0{a}"]));
	report.set("bounds_completed", json!(completed));
	report.set("exhaustive", json!(all_complete));
	report.set("failures_per_class", json!(per_class));
	report.assume("two keys a, b (distinct 64-bit fingerprints); fingerprint collisions are outside the claim");
	// schedule part: overlapping transactions begin and commit concurrently (incl. an apply failure)
	let code = crate::props::sched::run_into(&mut report, "C04", tier, if tier == Tier::Quick { 25.0 } else { 400.0 });
	if code != 0 {
		return code;
	}
	report.finish()
}

pub fn replay(r: &J) -> i32 {
	surrealkv::verif::set_forced_height(1);
	let evs = events_from_json(&r["events"]);
	let gc = r["gc_interval"].as_u64().unwrap_or(2) as u32;
	surrealkv::verif::set_gc_interval(gc);
	println!("replaying C04 [{} gc_interval={gc}] {}", r["part"], evs.iter().map(ev_str).collect::<Vec<_>>().join(" "));
	let run = || {
		if r["part"] == "oracle" {
			run_oracle(&evs)
		} else {
			match run_store(&evs, &OptSet::base("L2")) {
				Ok(x) => x,
				Err(e) => Some(("machinery".into(), e)),
			}
		}
	};
	let a = run();
	if a != run() {
		eprintln!("machinery: replay not deterministic");
		return 2;
	}
	match a {
		Some((c, t)) => {
			println!("VIOLATION property=C04 replay=<this file>\n  class={c} {t}");
			1
		}
		None => {
			println!("replay passed: no violation");
			0
		}
	}
}
