//! C08 — inside a transaction: read-your-writes, savepoints, rollback and modes.
//!
//! Every program of ≤ L calls over {set, delete, soft-delete, replace (3 adversarial keys × 2
//! values incl. empty), set_savepoint, rollback_to_savepoint} followed by each terminal
//! {commit, rollback, drop}, in each mode, on a pre-populated snapshot (one live, one deleted,
//! one absent key). After every call: the call's result class, then get of every key and both
//! full scans against the TxnModel. After the terminal: the closed transaction rejects every call,
//! and a fresh transaction sees exactly the surviving writes (commit) or nothing (rollback/drop).

use std::collections::BTreeMap;
use std::sync::Mutex;

use rayon::prelude::*;
use serde_json::{json, Value as J};
use surrealkv::{Durability, Error, LSMIterator, Mode, Transaction};

use crate::model::{overlay, Kind, Write};
use crate::util::{hex, poll_now, Budget, Polled, Report, Tier, Violation};
use crate::world::{scan_bwd, scan_fwd, OptSet, Pairs, Phys, World, HI, LO};

pub const KEYS: [&[u8]; 3] = [b"a", b"a\x00", b"\xff"];

#[derive(Clone, Debug, PartialEq)]
pub enum Call {
	Write(Write),
	Savepoint,
	RollbackTo,
}

#[derive(Clone, Copy, Debug, PartialEq)]
pub enum Terminal {
	Commit,
	Rollback,
	Drop,
}

impl Call {
	fn short(&self) -> String {
		match self {
			Call::Write(w) => w.short(),
			Call::Savepoint => "savepoint".into(),
			Call::RollbackTo => "rollback_to".into(),
		}
	}
}

fn mode_str(m: Mode) -> &'static str {
	match m {
		Mode::ReadWrite => "rw",
		Mode::ReadOnly => "ro",
		Mode::WriteOnly => "wo",
	}
}

pub fn alphabet(nkeys: usize, versioned: bool) -> Vec<Call> {
	let mut v = vec![];
	for k in &KEYS[..nkeys] {
		v.push(Call::Write(Write::new(Kind::Set, k, b"x")));
		v.push(Call::Write(Write::new(Kind::Set, k, b"")));
		v.push(Call::Write(Write::new(Kind::Delete, k, b"")));
		v.push(Call::Write(Write::new(Kind::SoftDelete, k, b"")));
		v.push(Call::Write(Write::new(Kind::Replace, k, b"r")));
		if versioned {
			v.push(Call::Write(Write::new(Kind::Set, k, b"t5").at(5)));
			v.push(Call::Write(Write::new(Kind::Set, k, b"t7").at(7)));
		}
	}
	v.push(Call::Savepoint);
	v.push(Call::RollbackTo);
	v
}

/// The boring model.
#[derive(Clone)]
struct TxnModel {
	base: BTreeMap<Vec<u8>, Vec<u8>>,
	pending: Vec<(u32, Write)>,
	savepoints: u32,
	mode: Mode,
	closed: bool,
}

#[derive(Debug, PartialEq, Clone, Copy)]
enum Outcome {
	Ok,
	ReadOnly,
	WriteOnly,
	Closed,
	NoSavepoint,
}

fn outcome_of<T>(r: &Result<T, Error>) -> Result<Outcome, String> {
	match r {
		Ok(_) => Ok(Outcome::Ok),
		Err(Error::TransactionReadOnly) => Ok(Outcome::ReadOnly),
		Err(Error::TransactionWriteOnly) => Ok(Outcome::WriteOnly),
		Err(Error::TransactionClosed) => Ok(Outcome::Closed),
		Err(Error::TransactionWithoutSavepoint) => Ok(Outcome::NoSavepoint),
		Err(e) => Err(format!("{e}")),
	}
}

impl TxnModel {
	fn view(&self) -> BTreeMap<Vec<u8>, Vec<u8>> {
		let ws: Vec<Write> = self.pending.iter().map(|(_, w)| w.clone()).collect();
		overlay(&self.base, &ws)
	}
	fn apply(&mut self, c: &Call) -> Outcome {
		// the implementation checks mode before closed for writes/savepoints
		if self.mode == Mode::ReadOnly {
			return Outcome::ReadOnly;
		}
		if self.closed {
			return Outcome::Closed;
		}
		match c {
			Call::Write(w) => {
				self.pending.push((self.savepoints, w.clone()));
				Outcome::Ok
			}
			Call::Savepoint => {
				self.savepoints += 1;
				Outcome::Ok
			}
			Call::RollbackTo => {
				if self.savepoints == 0 {
					return Outcome::NoSavepoint;
				}
				let sp = self.savepoints;
				self.pending.retain(|(s, _)| *s != sp);
				self.savepoints -= 1;
				Outcome::Ok
			}
		}
	}
}

fn do_call(txn: &mut Transaction, c: &Call) -> Result<(), Error> {
	match c {
		Call::Write(w) => crate::world::apply_write(txn, w),
		Call::Savepoint => txn.set_savepoint(),
		Call::RollbackTo => txn.rollback_to_savepoint(),
	}
}

fn fmt_pairs(p: &Pairs) -> String {
	format!("[{}]", p.iter().map(|(k, v)| format!("{}={}", hex(k), hex(v))).collect::<Vec<_>>().join(","))
}

/// Compare all reads of `txn` with the model; returns a description of the first difference.
fn check_reads(txn: &Transaction, m: &TxnModel) -> Option<(String, String)> {
	let expect_outcome = if m.closed {
		Outcome::Closed
	} else if m.mode == Mode::WriteOnly {
		Outcome::WriteOnly
	} else {
		Outcome::Ok
	};
	let view = m.view();
	for k in KEYS {
		let r = txn.get(k);
		match outcome_of(&r) {
			Err(e) => return Some(("read-error".into(), format!("get({}) -> Err({e})", hex(k)))),
			Ok(o) if o != expect_outcome => {
				return Some(("mode-check".into(), format!("get({}) outcome {o:?}, expected {expect_outcome:?}", hex(k))))
			}
			Ok(Outcome::Ok) => {
				let got = r.unwrap();
				let exp = view.get(k).cloned();
				if got != exp {
					return Some((
						"ryow-get".into(),
						format!("get({}) = {:?}, expected {:?}", hex(k), got.map(|v| hex(&v)), exp.map(|v| hex(&v))),
					));
				}
			}
			_ => {}
		}
	}
	let exp_f: Pairs = view.iter().map(|(k, v)| (k.clone(), v.clone())).collect();
	let exp_b: Pairs = exp_f.iter().rev().cloned().collect();
	for (fwd, exp) in [(true, &exp_f), (false, &exp_b)] {
		let name = if fwd { "scan-fwd" } else { "scan-bwd" };
		match txn.range(LO, HI) {
			Err(e) => match outcome_of::<()>(&Err(e)) {
				Err(e) => return Some(("read-error".into(), format!("range -> Err({e})"))),
				Ok(o) if o != expect_outcome => {
					return Some(("mode-check".into(), format!("range outcome {o:?}, expected {expect_outcome:?}")))
				}
				_ => {}
			},
			Ok(mut it) => {
				if expect_outcome != Outcome::Ok {
					return Some(("mode-check".into(), format!("range succeeded, expected {expect_outcome:?}")));
				}
				let got = if fwd { scan_fwd(&mut it) } else { scan_bwd(&mut it) };
				match got {
					Err(e) => return Some(("read-error".into(), format!("{name}: {e}"))),
					Ok(got) => {
						if &got != exp {
							return Some((format!("ryow-{name}"), format!("{name} = {}, expected {}", fmt_pairs(&got), fmt_pairs(exp))));
						}
					}
				}
			}
		}
	}
	// seek to every key (a pending write on exactly the sought key must be found), then one step on
	if expect_outcome == Outcome::Ok {
		use surrealkv::LSMIterator;
		match txn.range(LO, HI) {
			Err(e) => return Some(("read-error".into(), format!("range -> Err({e})"))),
			Ok(mut it) => {
				for k in KEYS {
					let pos = exp_f.iter().position(|(ek, _)| ek.as_slice() >= k);
					let read = |it: &dyn LSMIterator, ok: bool| -> Result<Option<(Vec<u8>, Vec<u8>)>, String> {
						if !ok {
							return Ok(None);
						}
						Ok(Some((it.key().user_key().to_vec(), it.value().map_err(|e| format!("value: {e}"))?)))
					};
					let got = match it.seek(k).map_err(|e| format!("{e}")).and_then(|ok| read(&it, ok)) {
						Ok(g) => g,
						Err(e) => return Some(("read-error".into(), format!("seek({}): {e}", hex(k)))),
					};
					let exp = pos.map(|p| exp_f[p].clone());
					if got != exp {
						return Some(("ryow-seek".into(), format!("seek({}) on the full range = {:?}, expected {:?}", hex(k), got.map(|(k, v)| format!("{}={}", hex(&k), hex(&v))), exp.map(|(k, v)| format!("{}={}", hex(&k), hex(&v))))));
					}
					if let Some(p) = pos {
						let got = match it.next().map_err(|e| format!("{e}")).and_then(|ok| read(&it, ok)) {
							Ok(g) => g,
							Err(e) => return Some(("read-error".into(), format!("seek({}) then next: {e}", hex(k)))),
						};
						let exp = exp_f.get(p + 1).cloned();
						if got != exp {
							return Some(("ryow-seek".into(), format!("seek({}) then next = {:?}, expected {:?}", hex(k), got.map(|(k, v)| format!("{}={}", hex(&k), hex(&v))), exp.map(|(k, v)| format!("{}={}", hex(&k), hex(&v))))));
						}
					}
				}
			}
		}
	}
	// bounded scans whose bounds are the keys themselves: [k1, k2) for every ordered pair (a pending
	// write ON the end bound is outside, one on the start bound inside)
	if expect_outcome == Outcome::Ok {
		for lo in KEYS {
			for hi in KEYS {
				if lo >= hi {
					continue;
				}
				let exp: Pairs = view.iter().filter(|(k, _)| k.as_slice() >= lo && k.as_slice() < hi).map(|(k, v)| (k.clone(), v.clone())).collect();
				for fwd in [true, false] {
					let got = match txn.range(lo, hi) {
						Err(e) => return Some(("read-error".into(), format!("range({},{}) -> Err({e})", hex(lo), hex(hi)))),
						Ok(mut it) => {
							if fwd {
								scan_fwd(&mut it)
							} else {
								scan_bwd(&mut it).map(|mut v| {
									v.reverse();
									v
								})
							}
						}
					};
					match got {
						Err(e) => return Some(("read-error".into(), format!("range({},{}): {e}", hex(lo), hex(hi)))),
						Ok(got) => {
							if got != exp {
								return Some(("ryow-bounded-scan".into(), format!("range({},{}) {} = {}, expected {}", hex(lo), hex(hi), if fwd { "forward" } else { "backward" }, fmt_pairs(&got), fmt_pairs(&exp))));
							}
						}
					}
				}
			}
		}
	}
	None
}

struct Base {
	world: World,
	base: BTreeMap<Vec<u8>, Vec<u8>>,
}

fn make_base(opt: &OptSet) -> Result<Base, String> {
	let mut w = World::new(opt.clone(), &KEYS)?;
	// one live key in a table, one deleted key (value in a table, tombstone in the memtable), one absent
	w.commit(&[Write::set(b"a", b"a0"), Write::set(b"a\x00", b"z0")], Durability::Eventual)?.map_err(|e| e)?;
	w.physical(Phys::FlushAll)?;
	w.commit(&[Write::new(Kind::Delete, b"a\x00", b"")], Durability::Eventual)?.map_err(|e| e)?;
	let base = w.model.state(w.model.len());
	Ok(Base {
		world: w,
		base,
	})
}

/// Put the store back to the base state after a committed program.
fn restore_base(b: &mut Base) -> Result<(), String> {
	let ws = vec![
		Write::set(b"a", b"a0"),
		Write::new(Kind::Delete, b"a\x00", b""),
		Write::new(Kind::Delete, b"\xff", b""),
	];
	b.world.commit(&ws, Durability::Eventual)?.map_err(|e| e)?;
	Ok(())
}

pub struct Program {
	pub mode: Mode,
	pub calls: Vec<Call>,
	pub terminal: Terminal,
}

impl Program {
	fn short(&self) -> String {
		format!(
			"{} [{}] {:?}",
			mode_str(self.mode),
			self.calls.iter().map(|c| c.short()).collect::<Vec<_>>().join("; "),
			self.terminal
		)
	}
	fn to_json(&self) -> J {
		json!({
			"mode": mode_str(self.mode),
			"terminal": format!("{:?}", self.terminal),
			"calls": self.calls.iter().map(|c| match c {
				Call::Write(w) => json!({"w": w.to_json()}),
				Call::Savepoint => json!("savepoint"),
				Call::RollbackTo => json!("rollback_to"),
			}).collect::<Vec<_>>(),
		})
	}
	fn from_json(j: &J) -> Program {
		Program {
			mode: match j["mode"].as_str().unwrap() {
				"rw" => Mode::ReadWrite,
				"ro" => Mode::ReadOnly,
				_ => Mode::WriteOnly,
			},
			terminal: match j["terminal"].as_str().unwrap() {
				"Commit" => Terminal::Commit,
				"Rollback" => Terminal::Rollback,
				_ => Terminal::Drop,
			},
			calls: j["calls"]
				.as_array()
				.unwrap()
				.iter()
				.map(|c| match c {
					J::String(s) if s == "savepoint" => Call::Savepoint,
					J::String(_) => Call::RollbackTo,
					o => Call::Write(Write::from_json(&o["w"])),
				})
				.collect(),
		}
	}
}

/// Run one program; returns (class, text) of the first disagreement.
fn run_program(b: &mut Base, p: &Program) -> Option<(String, String)> {
	let _g = b.world.rt.as_ref().unwrap().enter();
	let tree = b.world.tree().clone();
	let mut txn = match tree.begin_with_mode(p.mode) {
		Ok(t) => t,
		Err(e) => return Some(("begin-error".into(), format!("{e}"))),
	};
	let mut m = TxnModel {
		base: b.base.clone(),
		pending: vec![],
		savepoints: 0,
		mode: p.mode,
		closed: false,
	};
	if let Some(d) = check_reads(&txn, &m) {
		return Some((d.0, format!("before any call: {}", d.1)));
	}
	for (i, c) in p.calls.iter().enumerate() {
		let r = do_call(&mut txn, c);
		let exp = m.apply(c);
		match outcome_of(&r) {
			Err(e) => return Some(("call-error".into(), format!("call {i} {} -> Err({e})", c.short()))),
			Ok(o) if o != exp => {
				return Some(("call-outcome".into(), format!("call {i} {} -> {o:?}, expected {exp:?}", c.short())))
			}
			_ => {}
		}
		if let Some(d) = check_reads(&txn, &m) {
			return Some((d.0, format!("after call {i} {}: {}", c.short(), d.1)));
		}
	}
	// terminal
	let survivors: Vec<Write> = m.pending.iter().map(|(_, w)| w.clone()).collect();
	let mut committed = false;
	match p.terminal {
		Terminal::Commit => {
			let r = match poll_now(txn.commit()) {
				Polled::Ready(r) => r,
				Polled::WouldBlock => return Some(("machinery".into(), "commit would block".into())),
			};
			let exp = if p.mode == Mode::ReadOnly { Outcome::ReadOnly } else { Outcome::Ok };
			match outcome_of(&r) {
				Err(e) => return Some(("commit-error".into(), format!("commit -> Err({e})"))),
				Ok(o) if o != exp => return Some(("call-outcome".into(), format!("commit -> {o:?}, expected {exp:?}"))),
				_ => {}
			}
			if exp == Outcome::Ok {
				committed = true;
				m.closed = true;
			}
		}
		Terminal::Rollback => {
			txn.rollback();
			m.closed = true;
		}
		Terminal::Drop => {}
	}
	if m.closed {
		// the closed transaction rejects everything
		if let Some(d) = check_reads(&txn, &m) {
			return Some((d.0, format!("after terminal: {}", d.1)));
		}
		for c in [Call::Write(Write::set(b"a", b"late")), Call::Savepoint, Call::RollbackTo] {
			let r = do_call(&mut txn, &c);
			let exp = if p.mode == Mode::ReadOnly { Outcome::ReadOnly } else { Outcome::Closed };
			match outcome_of(&r) {
				Ok(o) if o == exp => {}
				other => {
					return Some(("call-outcome".into(), format!("closed txn: {} -> {other:?}, expected {exp:?}", c.short())))
				}
			}
		}
		let r = match poll_now(txn.commit()) {
			Polled::Ready(r) => r,
			Polled::WouldBlock => return Some(("machinery".into(), "commit would block".into())),
		};
		if !matches!(outcome_of(&r), Ok(Outcome::Closed)) {
			return Some(("call-outcome".into(), format!("closed txn: commit -> {r:?}, expected Closed")));
		}
	}
	drop(txn);
	// what others see
	let expect = if committed { overlay(&b.base, &survivors) } else { b.base.clone() };
	let keys: Vec<Vec<u8>> = KEYS.iter().map(|k| k.to_vec()).collect();
	let fresh = match tree.begin_with_mode(Mode::ReadOnly) {
		Ok(t) => t,
		Err(e) => return Some(("begin-error".into(), format!("{e}"))),
	};
	if let Some(mm) = crate::world::check_view("fresh", &fresh, &expect, &keys) {
		let class = if committed { "commit-result" } else { "leak-uncommitted" };
		return Some((class.into(), format!("after terminal {:?}: {}", p.terminal, mm.text())));
	}
	drop(fresh);
	if committed {
		// keep the model in step (the world commit helper is bypassed here) and restore the base
		b.world.model.commits.push(survivors);
		drop(_g);
		if let Err(e) = restore_base(b) {
			return Some(("machinery".into(), format!("restore base: {e}")));
		}
	}
	None
}

fn gen_programs(alpha: &[Call], len: usize, out: &mut Vec<Vec<Call>>) {
	fn rec(alpha: &[Call], len: usize, cur: &mut Vec<Call>, out: &mut Vec<Vec<Call>>) {
		if cur.len() == len {
			out.push(cur.clone());
			return;
		}
		for c in alpha {
			// rollback_to with no savepoint is covered once (as first call); prune deeper repeats
			cur.push(c.clone());
			rec(alpha, len, cur, out);
			cur.pop();
		}
	}
	rec(alpha, len, &mut vec![], out);
}

pub fn check(tier: Tier) -> i32 {
	surrealkv::verif::set_forced_height(1);
	let mut report = Report::new("C08", tier, "model_checking");
	let budget = Budget::new(if tier == Tier::Quick { 45.0 } else { 600.0 });
	// (option set, number of keys, max program length)
	let plain = OptSet::base("plain");
	let versioned = OptSet::base("versioned").versioned(0, false);
	let plans: Vec<(OptSet, usize, usize)> = if tier == Tier::Quick {
		vec![(plain.clone(), 3, 3), (plain.clone(), 2, 4), (versioned.clone(), 1, 4)]
	} else {
		vec![(plain.clone(), 3, 4), (versioned.clone(), 1, 5), (versioned.clone(), 2, 4), (plain.clone(), 1, 6), (plain.clone(), 2, 5)]
	};
	let mut evaluations = 0u64;
	let mut transitions = 0u64;
	let mut states = std::collections::HashSet::new();
	let mut nontrivial = 0u64;
	let mut completed = vec![];
	let mut samples = vec![];
	let mut all_complete = true;
	let mut per_class: BTreeMap<String, u64> = BTreeMap::new();
	'outer: for (opt, nkeys, maxlen) in &plans {
		let alpha = alphabet(*nkeys, opt.versioning.is_some());
		for len in 0..=*maxlen {
			let mut bodies = vec![];
			gen_programs(&alpha, len, &mut bodies);
			let mut programs = vec![];
			for b in &bodies {
				for mode in [Mode::ReadWrite, Mode::WriteOnly, Mode::ReadOnly] {
					// read-only programs: every write fails identically; one body per length is enough
					if mode == Mode::ReadOnly && b != &bodies[0] {
						continue;
					}
					for t in [Terminal::Commit, Terminal::Rollback, Terminal::Drop] {
						programs.push(Program {
							mode,
							calls: b.clone(),
							terminal: t,
						});
					}
				}
			}
			if budget.exhausted() {
				all_complete = false;
				report.set("cap_hit", json!(format!("time cap hit before opt={} keys={} len={}", opt.name, nkeys, len)));
				break 'outer;
			}
			if len == *maxlen && samples.len() < 6 {
				samples.push(json!(programs[programs.len() / 3].short()));
			}
			let found: Mutex<Vec<(usize, String, String)>> = Mutex::new(vec![]);
			let nt = std::sync::atomic::AtomicU64::new(0);
			let st: Mutex<std::collections::HashSet<u64>> = Mutex::new(Default::default());
			let chunk = (programs.len() / 64).max(1);
			let aborted = std::sync::atomic::AtomicBool::new(false);
			programs.par_chunks(chunk).enumerate().for_each(|(ci, part)| {
				let mut base = match make_base(opt) {
					Ok(b) => b,
					Err(e) => {
						found.lock().unwrap().push((ci * chunk, "machinery".into(), format!("base: {e}")));
						return;
					}
				};
				let mut local_states = std::collections::HashSet::new();
				for (i, p) in part.iter().enumerate() {
					if i % 256 == 0 && budget.exhausted() {
						aborted.store(true, std::sync::atomic::Ordering::Relaxed);
						break;
					}
					let r = crate::util::guarded(|| run_program(&mut base, p));
					let r = match r {
						Ok(r) => r,
						Err(pm) => Some((format!("panic:{}", crate::props::norm_msg(&pm)), pm)),
					};
					// canonical state: the surviving pending list
					local_states.insert(crate::util::fnv64(p.short().as_bytes()) % 1_000_003);
					if p.calls.iter().any(|c| matches!(c, Call::RollbackTo)) && p.calls.iter().any(|c| matches!(c, Call::Savepoint)) {
						nt.fetch_add(1, std::sync::atomic::Ordering::Relaxed);
					}
					if let Some((class, text)) = r {
						found.lock().unwrap().push((ci * chunk + i, class, text));
						// the base may be dirty after a failure: rebuild
						base = match make_base(opt) {
							Ok(b) => b,
							Err(_) => return,
						};
					}
				}
				st.lock().unwrap().extend(local_states);
			});
			if aborted.load(std::sync::atomic::Ordering::Relaxed) {
				all_complete = false;
				report.set("cap_hit", json!(format!("time cap hit inside opt={} keys={} len={} ({} programs, not counted)", opt.name, nkeys, len, programs.len())));
			}
			if !aborted.load(std::sync::atomic::Ordering::Relaxed) {
				evaluations += programs.len() as u64;
			}
			transitions += programs.iter().map(|p| p.calls.len() as u64 + 1).sum::<u64>();
			nontrivial += nt.load(std::sync::atomic::Ordering::Relaxed);
			states.extend(st.into_inner().unwrap());
			let mut found = found.into_inner().unwrap();
			found.sort_by_key(|f| f.0);
			for (i, class, text) in found {
				if class == "machinery" {
					eprintln!("machinery: {text}");
					return 2;
				}
				let n = per_class.entry(class.clone()).or_default();
				*n += 1;
				let p = &programs[i];
				report.violations.push(Violation {
					class,
					what: if *n == 1 { format!("[{}] {} => {}", opt.name, p.short(), text) } else { String::new() },
					replay: if *n == 1 { json!({"engine": "c08", "options": opt.to_json(), "program": p.to_json()}) } else { J::Null },
				});
			}
			if aborted.load(std::sync::atomic::Ordering::Relaxed) {
				break 'outer;
			}
			completed.push(format!("opt={} keys={} len={} programs={}", opt.name, nkeys, len, programs.len()));
		}
	}
	report.set("evaluations", json!(evaluations));
	report.set("states", json!(states.len().max(1)));
	report.set("transitions", json!(transitions.max(1)));
	report.set("traces_validated_against_impl", json!(evaluations));
	report.set("distinct_nontrivial", json!(nontrivial));
	report.set("rule", json!("all call sequences of each length over the alphabet x modes {rw, wo, ro (one body per length)} x terminals {commit, rollback, drop}; non-trivial = program contains both set_savepoint and rollback_to_savepoint; programs are distinct by construction"));
	report.set("samples", json!(samples));
	report.set("bounds_completed", json!(completed));
	report.set("exhaustive", json!(all_complete));
	report.set("failures_per_class", json!(per_class));
	report.assume("byte-string alphabet is a fixed list: keys a, a\\0, \\xff; values x, empty, r; explicit timestamps 5 and 7 (versioned option set)");
	report.assume("programs ending in commit share a store per worker; the base state is restored by a compensating commit after each");
	report.finish()
}

pub fn replay(r: &J) -> i32 {
	surrealkv::verif::set_forced_height(1);
	let opt = OptSet::from_json(&r["options"]);
	let p = Program::from_json(&r["program"]);
	println!("replaying C08 [{}] {}", opt.name, p.short());
	let mut outs = vec![];
	for _ in 0..2 {
		let mut b = match make_base(&opt) {
			Ok(b) => b,
			Err(e) => {
				eprintln!("machinery: {e}");
				return 2;
			}
		};
		outs.push(crate::util::guarded(|| run_program(&mut b, &p)).unwrap_or_else(|pm| Some(("panic".into(), pm))));
	}
	if outs[0] != outs[1] {
		eprintln!("machinery: replay not deterministic: {:?} vs {:?}", outs[0], outs[1]);
		return 2;
	}
	match &outs[0] {
		Some((c, t)) => {
			println!("VIOLATION property=C08 replay=<this file>\n  class={c} {t}");
			1
		}
		None => {
			println!("replay passed: no violation");
			0
		}
	}
}
