//! C18 — the B+tree index is a persistent ordered map.
//!
//! Explicit-state breadth-first search over the real `DiskBPlusTree`: a state is the exact file
//! content after `flush` (so merging equal states is sound for everything observable through the
//! file); transitions are insert (3 size classes incl. overflow) / delete on a skewed key set.
//! Every transition is executed on a tree re-opened from the state's bytes (so every state is also
//! exercised across close/reopen); a second, stateless pass runs all short operation lists on one
//! live tree (no reopen) to cover the node cache. After every operation: get of every key, full
//! range, cursor forward/backward/seek against a BTreeMap under the configured comparator, and the
//! page audit (reachable ∪ free-list = all pages, disjoint, header counter exact, leaf chain).

use std::collections::{BTreeMap, HashSet};
use std::path::{Path, PathBuf};
use std::sync::{Arc, Mutex};

use rayon::prelude::*;
use serde_json::{json, Value as J};
use surrealkv::bplustree::tree::{new_disk_tree, DiskBPlusTree};
use surrealkv::{BytewiseComparator, Comparator, LSMIterator, TimestampComparator};

use crate::util::{fnv64, fresh_dir, Budget, Report, Tier, Violation};

#[derive(Clone, Debug)]
pub struct Cfg {
	pub name: &'static str,
	pub timestamp_cmp: bool,
	pub key_len: usize,
	pub nkeys: usize,
	pub sizes: Vec<usize>,
	/// keys inserted (ascending, size class 0) before exploration starts
	pub prefill: Vec<usize>,
}

#[derive(Clone, Copy, Debug, PartialEq, Eq, Hash)]
pub enum Bop {
	Insert(usize, usize), // key index, size class
	Delete(usize),
}

fn bop_str(o: &Bop) -> String {
	match o {
		Bop::Insert(k, s) => format!("ins(k{k},s{s})"),
		Bop::Delete(k) => format!("del(k{k})"),
	}
}

fn comparator(cfg: &Cfg) -> Arc<dyn Comparator> {
	if cfg.timestamp_cmp {
		Arc::new(TimestampComparator::new(Arc::new(BytewiseComparator::default())))
	} else {
		Arc::new(BytewiseComparator::default())
	}
}

/// Key bytes for index i. For the timestamp comparator keys are encoded internal keys:
/// user key (i / 3) and timestamp (i % 3) + 1, ordered user key asc, timestamp desc.
fn key_bytes(cfg: &Cfg, i: usize) -> Vec<u8> {
	if cfg.timestamp_cmp {
		let uk = format!("u{:02}", i / 3);
		let mut k = uk.into_bytes();
		while k.len() < cfg.key_len {
			k.push(b'x');
		}
		let ts = (i % 3) as u64 + 1;
		let seq = 100 + i as u64;
		k.extend_from_slice(&((seq << 8) | 2).to_be_bytes());
		k.extend_from_slice(&ts.to_be_bytes());
		k
	} else {
		// skewed: shared prefixes, one key is a prefix of another
		let mut k = if cfg.nkeys > 100 { format!("k{i:03}") } else { format!("k{i:02}") }.into_bytes();
		while k.len() < cfg.key_len {
			k.push(b'x');
		}
		k
	}
}

fn value_bytes(cfg: &Cfg, k: usize, s: usize) -> Vec<u8> {
	let n = cfg.sizes[s];
	let mut v = vec![b'a' + (k % 26) as u8; n];
	if n > 0 {
		v[0] = b'0' + s as u8;
	}
	v
}

/// Model order: index order for bytewise keys; (user key asc, ts desc) for the timestamp comparator.
fn model_rank(cfg: &Cfg, i: usize) -> (usize, i64) {
	if cfg.timestamp_cmp {
		(i / 3, -((i % 3) as i64))
	} else {
		(i, 0)
	}
}

type Model = BTreeMap<(usize, i64), (usize, usize)>; // rank -> (key index, size class)

fn open(path: &Path, cfg: &Cfg) -> Result<DiskBPlusTree, String> {
	new_disk_tree(path, comparator(cfg)).map_err(|e| format!("open: {e}"))
}

fn apply(tree: &mut DiskBPlusTree, cfg: &Cfg, model: &mut Model, op: &Bop) -> Result<(), (String, String)> {
	match op {
		Bop::Insert(k, s) => {
			tree.insert(key_bytes(cfg, *k), value_bytes(cfg, *k, *s))
				.map_err(|e| ("op-error:insert".to_string(), format!("insert: {e}")))?;
			model.insert(model_rank(cfg, *k), (*k, *s));
		}
		Bop::Delete(k) => {
			let got = tree
				.delete(&key_bytes(cfg, *k))
				.map_err(|e| ("op-error:delete".to_string(), format!("delete: {e}")))?;
			let exp = model.remove(&model_rank(cfg, *k)).map(|(k, s)| value_bytes(cfg, k, s));
			if got.as_ref().map(|b| b.to_vec()) != exp {
				return Err((
					"delete-return".into(),
					format!("delete returned {:?} bytes, expected {:?}", got.map(|b| b.len()), exp.map(|b| b.len())),
				));
			}
		}
	}
	Ok(())
}

fn check_tree(tree: &mut DiskBPlusTree, cfg: &Cfg, model: &Model) -> Result<(), (String, String)> {
	// point lookups
	for i in 0..cfg.nkeys {
		let got = tree.get(&key_bytes(cfg, i)).map_err(|e| ("op-error:get".to_string(), format!("get(k{i}): {e}")))?;
		let exp = model.get(&model_rank(cfg, i)).map(|(k, s)| value_bytes(cfg, *k, *s));
		if got.as_ref().map(|b| b.to_vec()) != exp {
			return Err(("get-mismatch".into(), format!("get(k{i}) = {:?} bytes, expected {:?}", got.map(|b| b.len()), exp.map(|b| b.len()))));
		}
	}
	let expect: Vec<(Vec<u8>, Vec<u8>)> = model.values().map(|(k, s)| (key_bytes(cfg, *k), value_bytes(cfg, *k, *s))).collect();
	let names = |v: &[(Vec<u8>, Vec<u8>)]| -> String {
		v.iter().map(|(k, v)| format!("{}:{}", String::from_utf8_lossy(&k[..3.min(k.len())]), v.len())).collect::<Vec<_>>().join(",")
	};
	// range scan
	{
		let empty: &[u8] = &[];
		let it = tree.range(empty..).map_err(|e| ("op-error:range".to_string(), format!("range: {e}")))?;
		let mut got = vec![];
		for e in it {
			let (k, v) = e.map_err(|e| ("op-error:range".to_string(), format!("range item: {e}")))?;
			got.push((k.to_vec(), v.to_vec()));
		}
		if got != expect {
			return Err(("range-mismatch".into(), format!("range(..) = [{}], expected [{}]", names(&got), names(&expect))));
		}
	}
	// bounded range scans: stored keys as bounds (first / middle / last), every inclusive /
	// exclusive combination - the end bound usually lies in a later leaf than the start
	if expect.len() >= 2 {
		use std::ops::Bound;
		let n = expect.len();
		for (a, b) in [(0usize, n - 1), (0, n / 2), (n / 2, n - 1)] {
			if a >= b {
				continue;
			}
			for lo_incl in [true, false] {
				for hi_incl in [true, false] {
					let lo_k: &[u8] = &expect[a].0;
					let hi_k: &[u8] = &expect[b].0;
					let lo = if lo_incl { Bound::Included(lo_k) } else { Bound::Excluded(lo_k) };
					let hi = if hi_incl { Bound::Included(hi_k) } else { Bound::Excluded(hi_k) };
					let it = tree.range((lo, hi)).map_err(|e| ("op-error:range".to_string(), format!("bounded range: {e}")))?;
					let mut got = vec![];
					for e in it {
						let (k, v) = e.map_err(|e| ("op-error:range".to_string(), format!("bounded range item: {e}")))?;
						got.push((k.to_vec(), v.to_vec()));
					}
					let from = if lo_incl { a } else { a + 1 };
					let to = if hi_incl { b + 1 } else { b };
					let exp: Vec<(Vec<u8>, Vec<u8>)> = if from < to { expect[from..to].to_vec() } else { vec![] };
					if got != exp {
						return Err(("bounded-range-mismatch".into(), format!("range({}k#{a}, k#{b}{}) = [{}], expected [{}]", if lo_incl { "[" } else { "(" }, if hi_incl { "]" } else { ")" }, names(&got), names(&exp))));
					}
				}
			}
		}
	}
	// cursor forward / backward / seek
	{
		let mut it = tree.internal_iterator();
		let mut got = vec![];
		let mut ok = it.seek_first().map_err(|e| ("op-error:iter".to_string(), format!("seek_first: {e}")))?;
		while ok {
			got.push((it.key().encoded().to_vec(), it.value_encoded().map_err(|e| ("op-error:iter".to_string(), format!("{e}")))?.to_vec()));
			ok = it.next().map_err(|e| ("op-error:iter".to_string(), format!("next: {e}")))?;
			if got.len() > 10_000 {
				return Err(("iter-loop".into(), "forward iteration does not terminate".into()));
			}
		}
		if got != expect {
			return Err(("iter-fwd-mismatch".into(), format!("forward = [{}], expected [{}]", names(&got), names(&expect))));
		}
		let mut got = vec![];
		let mut ok = it.seek_last().map_err(|e| ("op-error:iter".to_string(), format!("seek_last: {e}")))?;
		while ok {
			got.push((it.key().encoded().to_vec(), it.value_encoded().map_err(|e| ("op-error:iter".to_string(), format!("{e}")))?.to_vec()));
			ok = it.prev().map_err(|e| ("op-error:iter".to_string(), format!("prev: {e}")))?;
			if got.len() > 10_000 {
				return Err(("iter-loop".into(), "backward iteration does not terminate".into()));
			}
		}
		got.reverse();
		if got != expect {
			return Err(("iter-bwd-mismatch".into(), format!("backward = [{}], expected [{}]", names(&got), names(&expect))));
		}
		for i in 0..cfg.nkeys {
			let target = key_bytes(cfg, i);
			let ok = it.seek(&target).map_err(|e| ("op-error:iter".to_string(), format!("seek: {e}")))?;
			let exp = model.range(model_rank(cfg, i)..).next().map(|(_, (k, _))| key_bytes(cfg, *k));
			let got = if ok { Some(it.key().encoded().to_vec()) } else { None };
			if got != exp {
				return Err(("seek-mismatch".into(), format!("seek(k{i}) landed on {:?}, expected {:?}", got.map(|k| String::from_utf8_lossy(&k[..3]).to_string()), exp.map(|k| String::from_utf8_lossy(&k[..3]).to_string()))));
			}
		}
	}
	// page audit
	let a = tree.verif_page_audit().map_err(|e| ("op-error:audit".to_string(), format!("audit: {e}")))?;
	if !a.leaked.is_empty() {
		return Err(("page-leak".into(), format!("pages neither reachable nor free: {:?} (total {})", a.leaked, a.total_pages)));
	}
	if !a.doubly_used.is_empty() {
		return Err(("page-double-use".into(), format!("pages used twice: {:?}", a.doubly_used)));
	}
	if !a.problems.is_empty() {
		return Err(("page-structure".into(), a.problems.join("; ")));
	}
	Ok(())
}

struct State {
	bytes: Vec<u8>,
	model: Model,
	path: Vec<Bop>,
}

fn ops_for(cfg: &Cfg) -> Vec<Bop> {
	let mut v = vec![];
	for k in 0..cfg.nkeys {
		if cfg.prefill.contains(&k) && cfg.prefill.len() > 8 && k % 4 != 0 {
			// with a large prefill only every 4th prefilled key is in the alphabet (plus all new keys)
			continue;
		}
		for s in 0..cfg.sizes.len() {
			v.push(Bop::Insert(k, s));
		}
		v.push(Bop::Delete(k));
	}
	v
}

fn seed_state(cfg: &Cfg, dir: &Path) -> Result<State, String> {
	let p = dir.join("seed.bpt");
	let _ = std::fs::remove_file(&p);
	let mut model = Model::new();
	{
		let mut t = open(&p, cfg)?;
		for k in &cfg.prefill {
			apply(&mut t, cfg, &mut model, &Bop::Insert(*k, 0)).map_err(|e| e.1)?;
		}
		check_tree(&mut t, cfg, &model).map_err(|e| format!("SEED-VIOLATION:{}:{}", e.0, e.1))?;
		t.flush().map_err(|e| format!("{e}"))?;
	}
	Ok(State {
		bytes: std::fs::read(&p).map_err(|e| format!("{e}"))?,
		model,
		path: vec![],
	})
}

struct Found {
	class: String,
	text: String,
	replay: J,
}

fn replay_json(cfg: &Cfg, mode: &str, path: &[Bop]) -> J {
	json!({"engine": "c18", "cfg": cfg.name, "mode": mode,
		"ops": path.iter().map(|o| match o { Bop::Insert(k, s) => json!({"ins": [k, s]}), Bop::Delete(k) => json!({"del": k}) }).collect::<Vec<_>>()})
}

/// Exact-state BFS with reopen at every transition.
#[allow(clippy::too_many_arguments)]
fn bfs(
	cfg: &Cfg,
	max_depth: usize,
	max_states: usize,
	budget: &Budget,
	states_total: &mut u64,
	transitions_total: &mut u64,
	completed: &mut Vec<String>,
	found: &mut Vec<Found>,
) -> Result<bool, String> {
	let dir = fresh_dir("bpt");
	let seed = seed_state(cfg, &dir)?;
	let ops = ops_for(cfg);
	let mut seen: HashSet<u64> = HashSet::new();
	seen.insert(fnv64(&seed.bytes));
	let mut frontier = vec![seed];
	let mut complete = true;
	for depth in 1..=max_depth {
		if budget.exhausted() || seen.len() >= max_states {
			complete = false;
			completed.push(format!("{}: BFS stopped before depth {depth} ({} states; cap: {})", cfg.name, seen.len(), if budget.exhausted() { "time" } else { "states" }));
			break;
		}
		let next: Mutex<Vec<State>> = Mutex::new(vec![]);
		let fl: Mutex<Vec<Found>> = Mutex::new(vec![]);
		let seen_m = Mutex::new(&mut seen);
		let trans = std::sync::atomic::AtomicU64::new(0);
		// memory discipline: the last level's states are only counted, and a level's frontier may
		// hold at most FRONTIER_BYTES of file images (states beyond that are checked but not expanded)
		const FRONTIER_BYTES: u64 = 6 << 30;
		let held = std::sync::atomic::AtomicU64::new(0);
		let dropped = std::sync::atomic::AtomicU64::new(0);
		let last_level = depth == max_depth;
		frontier.par_iter().for_each(|st| {
			let wdir = fresh_dir("bptw");
			let p: PathBuf = wdir.join("t.bpt");
			for op in &ops {
				// deleting an absent key is a no-op transition; keep one per state (first key) only
				if let Bop::Delete(k) = op {
					if !st.model.contains_key(&model_rank(cfg, *k)) && *k != 0 {
						continue;
					}
				}
				trans.fetch_add(1, std::sync::atomic::Ordering::Relaxed);
				let r = crate::util::guarded(|| -> Result<Option<State>, (String, String)> {
					std::fs::write(&p, &st.bytes).map_err(|e| ("machinery".to_string(), format!("{e}")))?;
					let mut model = st.model.clone();
					let mut t = open(&p, cfg).map_err(|e| ("reopen-error".to_string(), e))?;
					// the reopened tree must already agree with the model
					check_tree(&mut t, cfg, &model).map_err(|(c, m)| (format!("after-reopen:{c}"), m))?;
					apply(&mut t, cfg, &mut model, op)?;
					check_tree(&mut t, cfg, &model)?;
					t.flush().map_err(|e| ("op-error:flush".to_string(), format!("{e}")))?;
					drop(t);
					let bytes = std::fs::read(&p).map_err(|e| ("machinery".to_string(), format!("{e}")))?;
					let h = fnv64(&bytes);
					let mut s = seen_m.lock().unwrap();
					if s.insert(h) {
						drop(s);
						let mut path = st.path.clone();
						path.push(*op);
						if last_level {
							return Ok(None);
						}
						if held.fetch_add(bytes.len() as u64, std::sync::atomic::Ordering::Relaxed) > FRONTIER_BYTES {
							dropped.fetch_add(1, std::sync::atomic::Ordering::Relaxed);
							return Ok(None);
						}
						Ok(Some(State {
							bytes,
							model,
							path,
						}))
					} else {
						Ok(None)
					}
				});
				let mut path = st.path.clone();
				path.push(*op);
				match r {
					Ok(Ok(Some(ns))) => next.lock().unwrap().push(ns),
					Ok(Ok(None)) => {}
					Ok(Err((class, text))) => fl.lock().unwrap().push(Found {
						class: class.clone(),
						text: format!("[{} bfs] prefill={:?} {} => {}", cfg.name, cfg.prefill.len(), path.iter().map(bop_str).collect::<Vec<_>>().join(" "), text),
						replay: replay_json(cfg, "bfs", &path),
					}),
					Err(p) => fl.lock().unwrap().push(Found {
						class: format!("panic:{}", crate::props::norm_msg(&p)),
						text: format!("[{} bfs] {} => {}", cfg.name, path.iter().map(bop_str).collect::<Vec<_>>().join(" "), p),
						replay: replay_json(cfg, "bfs", &path),
					}),
				}
			}
			let _ = std::fs::remove_dir_all(&wdir);
		});
		*transitions_total += trans.load(std::sync::atomic::Ordering::Relaxed);
		let mut fl = fl.into_inner().unwrap();
		fl.sort_by_key(|f| f.text.len());
		for f in fl {
			if f.class == "machinery" {
				return Err(f.text);
			}
			found.push(f);
		}
		frontier = next.into_inner().unwrap();
		// deterministic order independent of thread timing
		frontier.sort_by(|a, b| a.path.len().cmp(&b.path.len()).then_with(|| format!("{:?}", a.path).cmp(&format!("{:?}", b.path))));
		let dr = dropped.load(std::sync::atomic::Ordering::Relaxed);
		if dr > 0 {
			complete = false;
			completed.push(format!("{}: depth {depth}: {dr} new states were checked but not expanded further (frontier memory cap)", cfg.name));
		}
		if last_level {
			completed.push(format!("{}: BFS depth {depth} complete ({} states)", cfg.name, seen.len()));
			break;
		}
		if frontier.is_empty() {
			completed.push(format!("{}: BFS closed at depth {depth} ({} states: no new state)", cfg.name, seen.len()));
			break;
		}
		if depth == max_depth {
			completed.push(format!("{}: BFS depth {depth} complete ({} states)", cfg.name, seen.len()));
		}
	}
	*states_total += seen.len() as u64;
	let _ = std::fs::remove_dir_all(&dir);
	Ok(complete)
}

/// Stateless pass: every operation list of length `len` on ONE live tree (node cache stays warm),
/// with a final reopen check.
fn live_lists(cfg: &Cfg, len: usize, budget: &Budget, evals: &mut u64, transitions: &mut u64, found: &mut Vec<Found>) -> Result<bool, String> {
	let ops = ops_for(cfg);
	let dir = fresh_dir("bptl");
	let seed = seed_state(cfg, &dir)?;
	let total = ops.len().pow(len as u32);
	let idxs: Vec<usize> = (0..total).collect();
	let fl: Mutex<Vec<Found>> = Mutex::new(vec![]);
	let done = std::sync::atomic::AtomicU64::new(0);
	let stopped = std::sync::atomic::AtomicBool::new(false);
	idxs.par_chunks(512).for_each(|part| {
		if budget.exhausted() {
			stopped.store(true, std::sync::atomic::Ordering::Relaxed);
			return;
		}
		let wdir = fresh_dir("bptlw");
		let p = wdir.join("t.bpt");
		for &n in part {
			let mut list = vec![];
			let mut m = n;
			for _ in 0..len {
				list.push(ops[m % ops.len()]);
				m /= ops.len();
			}
			let r = crate::util::guarded(|| -> Result<(), (String, String)> {
				std::fs::write(&p, &seed.bytes).map_err(|e| ("machinery".to_string(), format!("{e}")))?;
				let mut model = seed.model.clone();
				let mut t = open(&p, cfg).map_err(|e| ("reopen-error".to_string(), e))?;
				for op in &list {
					apply(&mut t, cfg, &mut model, op)?;
					check_tree(&mut t, cfg, &model)?;
				}
				t.flush().map_err(|e| ("op-error:flush".to_string(), format!("{e}")))?;
				drop(t);
				let mut t = open(&p, cfg).map_err(|e| ("reopen-error".to_string(), e))?;
				check_tree(&mut t, cfg, &model).map_err(|(c, m)| (format!("after-reopen:{c}"), m))?;
				Ok(())
			});
			let res = match r {
				Ok(Ok(())) => None,
				Ok(Err(e)) => Some(e),
				Err(p) => Some((format!("panic:{}", crate::props::norm_msg(&p)), p)),
			};
			if let Some((class, text)) = res {
				fl.lock().unwrap().push(Found {
					class,
					text: format!("[{} live] {} => {}", cfg.name, list.iter().map(bop_str).collect::<Vec<_>>().join(" "), text),
					replay: replay_json(cfg, "live", &list),
				});
			}
			done.fetch_add(1, std::sync::atomic::Ordering::Relaxed);
		}
		let _ = std::fs::remove_dir_all(&wdir);
	});
	let n = done.load(std::sync::atomic::Ordering::Relaxed);
	*evals += n;
	*transitions += n * len as u64;
	let mut fl = fl.into_inner().unwrap();
	fl.sort_by_key(|f| f.text.len());
	for f in fl {
		if f.class == "machinery" {
			return Err(f.text);
		}
		found.push(f);
	}
	let _ = std::fs::remove_dir_all(&dir);
	Ok(!stopped.load(std::sync::atomic::Ordering::Relaxed))
}

pub fn configs() -> Vec<Cfg> {
	vec![
		Cfg {
			name: "small-keys",
			timestamp_cmp: false,
			key_len: 4,
			nkeys: 8,
			sizes: vec![8, 980, 5000],
			prefill: vec![],
		},
		Cfg {
			name: "big-keys-3-levels",
			timestamp_cmp: false,
			key_len: 900,
			nkeys: 26,
			sizes: vec![8],
			prefill: (0..26).filter(|k| k % 2 == 0 || *k > 18).collect(),
		},
		Cfg {
			name: "timestamp-order",
			timestamp_cmp: true,
			key_len: 3,
			nkeys: 9,
			sizes: vec![8, 960],
			prefill: vec![],
		},
		// a leaf that is already nearly full of inline values: overwriting an entry that owns an
		// overflow chain then goes through the split path
		Cfg {
			name: "full-leaf-overflow",
			timestamp_cmp: false,
			key_len: 4,
			nkeys: 4,
			sizes: vec![980, 5000, 6000],
			prefill: vec![1, 2, 3],
		},
		Cfg {
			name: "overflow-heavy",
			timestamp_cmp: false,
			key_len: 1200,
			nkeys: 6,
			sizes: vec![8, 9000],
			prefill: vec![],
		},
	]
}

/// Growth / shrink pass: insert `n` keys one at a time in the given order, then delete them one at a
/// time, closing and reopening the tree after EVERY operation (so every structural event - leaf
/// split, internal split, root split, merge, redistribution, root collapse - is immediately
/// followed by a reopen) and checking the whole tree against the model after every reopen.
fn growth_pass(cfg: &Cfg, order: &str, n: usize, transitions: &mut u64) -> Result<Option<Found>, String> {
	let dir = fresh_dir("c18-grow");
	let p = dir.join("grow.bpt");
	let mut model = Model::new();
	let idx = |i: usize| -> usize {
		match order {
			"ascending" => i,
			"descending" => n - 1 - i,
			// alternate low / high so that splits happen on both edges
			_ => {
				if i % 2 == 0 {
					i / 2
				} else {
					n - 1 - i / 2
				}
			}
		}
	};
	let mut path: Vec<Bop> = vec![];
	// size class by key, so that large (overflow) values are spread over the leaves
	let nsz = cfg.sizes.len();
	let mut ops: Vec<Bop> = (0..n).map(|i| Bop::Insert(idx(i), idx(i) % nsz)).collect();
	match order {
		// deletes in the opposite key order of the inserts (borrows from the left sibling)
		"ascending" => ops.extend((0..n).rev().map(Bop::Delete)),
		"descending" => ops.extend((0..n).map(Bop::Delete)),
		_ => ops.extend((0..n).map(|i| Bop::Delete(idx((i * 7 + 3) % n)))),
	}
	let mut res = None;
	for op in ops {
		path.push(op);
		*transitions += 1;
		let r = (|| -> Result<(), (String, String)> {
			let mut t = open(&p, cfg).map_err(|e| ("op-error:open".to_string(), e))?;
			apply(&mut t, cfg, &mut model, &op)?;
			t.flush().map_err(|e| ("op-error:flush".to_string(), format!("{e}")))?;
			drop(t);
			let mut t = open(&p, cfg).map_err(|e| ("op-error:reopen".to_string(), e))?;
			check_tree(&mut t, cfg, &model).map_err(|(c, t)| (format!("after-reopen:{c}"), t))?;
			Ok(())
		})();
		if let Err((class, text)) = r {
			res = Some(Found {
				class: format!("growth:{class}"),
				text: format!("[{} growth pass, {order} order] after {} operations (last {}): {text}", cfg.name, path.len(), bop_str(&op)),
				replay: json!({"engine": "c18-growth", "cfg": cfg.name, "order": order, "n": n}),
			});
			break;
		}
	}
	let _ = std::fs::remove_dir_all(&dir);
	Ok(res)
}

fn growth_configs() -> Vec<(Cfg, usize)> {
	vec![
		(
			// one value of ~1500 pages: deleting it frees more pages than one free-list trunk holds
			Cfg {
				name: "growth-free-list-overflow",
				timestamp_cmp: false,
				key_len: 8,
				nkeys: 2,
				sizes: vec![6_200_000, 64],
				prefill: vec![],
			},
			2,
		),
		(
			Cfg {
				name: "growth-medium-keys",
				timestamp_cmp: false,
				key_len: 24,
				nkeys: 140,
				sizes: vec![100],
				prefill: vec![],
			},
			140,
		),
		(
			Cfg {
				name: "growth-overflow-mix",
				timestamp_cmp: false,
				key_len: 24,
				nkeys: 90,
				sizes: vec![100, 60, 5000],
				prefill: vec![],
			},
			90,
		),
		(
			Cfg {
				name: "growth-big-keys",
				timestamp_cmp: false,
				key_len: 900,
				nkeys: 40,
				sizes: vec![8],
				prefill: vec![],
			},
			40,
		),
		(
			Cfg {
				name: "growth-timestamp-order",
				timestamp_cmp: true,
				key_len: 600,
				nkeys: 45,
				sizes: vec![8],
				prefill: vec![],
			},
			45,
		),
	]
}

pub fn check(tier: Tier) -> i32 {
	let mut report = Report::new("C18", tier, "model_checking");
	let budget = Budget::new(if tier == Tier::Quick { 45.0 } else { 900.0 });
	let (depth, max_states, live_len) = if tier == Tier::Quick { (4, 150_000, 3) } else { (6, 3_000_000, 4) };
	let mut states = 0u64;
	let mut transitions = 0u64;
	let mut evals = 0u64;
	let mut completed = vec![];
	let mut found: Vec<Found> = vec![];
	let mut all_complete = true;
	for cfg in configs() {
		// the configurations with few distinct file states per level go one level deeper
		let depth = if cfg.name == "big-keys-3-levels" || cfg.name == "timestamp-order" { depth + 1 } else { depth };
		match bfs(&cfg, depth, max_states, &budget, &mut states, &mut transitions, &mut completed, &mut found) {
			Ok(c) => all_complete &= c,
			Err(e) if e.starts_with("SEED-VIOLATION:") => {
				// the prefilled seed tree already disagrees with the model
				let rest = e.trim_start_matches("SEED-VIOLATION:");
				let (class, text) = rest.split_once(':').unwrap_or((rest, ""));
				found.push(Found {
					class: format!("seed:{class}"),
					text: format!("[{} seed: {} ascending inserts] {text}", cfg.name, cfg.prefill.len()),
					replay: replay_json(&cfg, "bfs", &[]),
				});
				all_complete = false;
			}
			Err(e) => {
				eprintln!("machinery: {e}");
				return 2;
			}
		}
	}
	// growth / shrink passes with a reopen after every operation
	{
		use rayon::prelude::*;
		let jobs: Vec<(Cfg, usize, &str)> = growth_configs().into_iter().flat_map(|(c, n)| ["ascending", "descending", "alternating"].into_iter().map(move |o| (c.clone(), n, o))).collect();
		let results: Vec<(String, Result<Option<Found>, String>, u64)> = jobs
			.par_iter()
			.map(|(c, n, o)| {
				let mut t = 0u64;
				let r = growth_pass(c, o, *n, &mut t);
				(format!("{} ({o}, {n} inserts then {n} deletes, reopen + full check after each)", c.name), r, t)
			})
			.collect();
		for (name, r, t) in results {
			transitions += t;
			match r {
				Err(e) => {
					eprintln!("machinery: {e}");
					return 2;
				}
				Ok(Some(f)) => found.push(f),
				Ok(None) => completed.push(format!("growth pass {name}: complete")),
			}
		}
	}
	let bfs_transitions = transitions;
	for cfg in configs() {
		let len = if cfg.nkeys > 10 { live_len - 1 } else { live_len };
		match live_lists(&cfg, len, &budget, &mut evals, &mut transitions, &mut found) {
			Ok(c) => {
				all_complete &= c;
				completed.push(format!("{}: all live op lists of length {len} {}", cfg.name, if c { "complete" } else { "(time cap hit)" }));
			}
			Err(e) if e.starts_with("SEED-VIOLATION:") => {
				all_complete = false;
			}
			Err(e) => {
				eprintln!("machinery: {e}");
				return 2;
			}
		}
	}
	let mut seen = HashSet::new();
	for f in found {
		let first = seen.insert(f.class.clone());
		report.violations.push(Violation {
			class: f.class,
			what: if first { f.text } else { String::new() },
			replay: if first { f.replay } else { J::Null },
		});
	}
	report.violations.sort_by_key(|v| v.what.is_empty());
	report.set("evaluations", json!(bfs_transitions + evals));
	report.set("states", json!(states.max(1)));
	report.set("transitions", json!(transitions.max(1)));
	report.set("traces_validated_against_impl", json!(bfs_transitions + evals));
	report.set("distinct_nontrivial", json!(states));
	report.set("rule", json!("BFS: state = exact file bytes after flush (FNV-64 of the content), transition = reopen + one insert/delete + full check + flush; live pass: all op lists of a fixed length on one open tree from the seed state, then reopen; non-trivial/distinct = distinct file states reached"));
	report.set("samples", json!(["small-keys: ins(k3,s1) ins(k1,s2) del(k3) ins(k0,s1)", "big-keys-3-levels (21 keys of 900 B prefilled, 3 levels): del(k4) ins(k5,s0) del(k8)"]));
	report.set("bounds_completed", json!(completed));
	report.set("exhaustive", json!(all_complete));
	let heights: Vec<u64> = configs()
		.iter()
		.map(|c| {
			let d = fresh_dir("bpth");
			let h = seed_state(c, &d)
				.ok()
				.and_then(|s| {
					let p = d.join("h.bpt");
					std::fs::write(&p, &s.bytes).ok()?;
					open(&p, c).ok()?.verif_page_audit().ok().map(|a| a.height)
				})
				.unwrap_or(0);
			let _ = std::fs::remove_dir_all(&d);
			h
		})
		.collect();
	report.set("seed_tree_heights", json!(heights));
	report.set("configs", json!(configs().iter().map(|c| json!({"name": c.name, "timestamp_comparator": c.timestamp_cmp, "key_len": c.key_len, "keys": c.nkeys, "value_sizes": c.sizes, "prefill": c.prefill.len()})).collect::<Vec<_>>()));
	report.assume("state identity uses a 64-bit hash of the file bytes (collision would merge two states)");
	report.assume("key sets and size classes are fixed lists chosen to force leaf/internal splits, merges, redistribution and overflow chains");
	report.finish()
}

pub fn replay(r: &J) -> i32 {
	let name = r["cfg"].as_str().unwrap_or("");
	if r["engine"] == "c18-growth" {
		let Some((cfg, _)) = growth_configs().into_iter().find(|c| c.0.name == name) else {
			eprintln!("machinery: unknown growth cfg {name}");
			return 2;
		};
		let order = r["order"].as_str().unwrap_or("ascending").to_string();
		let n = r["n"].as_u64().unwrap_or(0) as usize;
		let order: &'static str = match order.as_str() {
			"descending" => "descending",
			"alternating" => "alternating",
			_ => "ascending",
		};
		let mut t = 0;
		let a = growth_pass(&cfg, order, n, &mut t);
		let b = growth_pass(&cfg, order, n, &mut t);
		return match (a, b) {
			(Ok(a), Ok(b)) => {
				if a.as_ref().map(|f| &f.class) != b.as_ref().map(|f| &f.class) {
					eprintln!("machinery: replay not deterministic");
					return 2;
				}
				match a {
					Some(f) => {
						println!("VIOLATION property=C18 replay=<this file>\n  class={} {}", f.class, f.text);
						1
					}
					None => {
						println!("replay passed: no violation");
						0
					}
				}
			}
			(Err(e), _) | (_, Err(e)) => {
				eprintln!("machinery: {e}");
				2
			}
		};
	}
	let Some(cfg) = configs().into_iter().find(|c| c.name == name) else {
		eprintln!("machinery: unknown cfg {name}");
		return 2;
	};
	let reopen_each = r["mode"] == "bfs";
	let ops: Vec<Bop> = r["ops"]
		.as_array()
		.unwrap()
		.iter()
		.map(|o| {
			if let Some(a) = o.get("ins") {
				Bop::Insert(a[0].as_u64().unwrap() as usize, a[1].as_u64().unwrap() as usize)
			} else {
				Bop::Delete(o["del"].as_u64().unwrap() as usize)
			}
		})
		.collect();
	println!("replaying C18 [{}] {}", cfg.name, ops.iter().map(bop_str).collect::<Vec<_>>().join(" "));
	let run = || -> Option<(String, String)> {
		let dir = fresh_dir("bptr");
		let seed = seed_state(&cfg, &dir).ok()?;
		let p = dir.join("t.bpt");
		std::fs::write(&p, &seed.bytes).ok()?;
		let mut model = seed.model.clone();
		let r = crate::util::guarded(|| -> Result<(), (String, String)> {
			let mut t = open(&p, &cfg).map_err(|e| ("reopen-error".to_string(), e))?;
			for op in &ops {
				if reopen_each {
					t.flush().map_err(|e| ("op-error:flush".to_string(), format!("{e}")))?;
					drop(t);
					t = open(&p, &cfg).map_err(|e| ("reopen-error".to_string(), e))?;
					check_tree(&mut t, &cfg, &model).map_err(|(c, m)| (format!("after-reopen:{c}"), m))?;
				}
				apply(&mut t, &cfg, &mut model, op)?;
				check_tree(&mut t, &cfg, &model)?;
			}
			t.flush().map_err(|e| ("op-error:flush".to_string(), format!("{e}")))?;
			drop(t);
			let mut t = open(&p, &cfg).map_err(|e| ("reopen-error".to_string(), e))?;
			check_tree(&mut t, &cfg, &model).map_err(|(c, m)| (format!("after-reopen:{c}"), m))
		});
		let _ = std::fs::remove_dir_all(&dir);
		match r {
			Ok(Ok(())) => None,
			Ok(Err(e)) => Some(e),
			Err(p) => Some(("panic".into(), p)),
		}
	};
	let a = run();
	let b = run();
	if a != b {
		eprintln!("machinery: replay not deterministic");
		return 2;
	}
	match a {
		Some((c, t)) => {
			println!("VIOLATION property=C18 replay=<this file>\n  class={c} {t}");
			1
		}
		None => {
			println!("replay passed: no violation");
			0
		}
	}
}
