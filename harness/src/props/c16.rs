//! C16 — damaged files are detected, never served as data.
//!
//! For every single-bit flip (and a byte XOR 0xff) at every position of
//!   * table files held in memory (real TableWriter/Table through the facade, several formats),
//!   * the table / commit-log / value-log files of small databases built by the real store,
//! every read that touches the file (point lookups for every key × snapshot, forward and backward
//! scans; for database files: open + get of every key + both scans) must return exactly the
//! pristine answer or an error - never different data, never a panic, abort or hang.
//! The sweeps run in worker subprocesses (a damaged length field can make an allocation abort the
//! process); the parent watches a progress file, records an abort/hang at the position where a
//! worker died and restarts behind it.

use std::collections::{BTreeMap, BTreeSet};
use std::ops::Bound;
use std::path::{Path, PathBuf};
use std::sync::{Arc, Mutex};

use rayon::prelude::*;
use serde_json::{json, Value as J};
use surrealkv::verif::{verif_write_table, VEntry, VTable};
use surrealkv::{CompressionType, Durability, Mode, Options};

use crate::model::Write;
use crate::util::{fresh_dir, Budget, Report, Tier, Violation};
use crate::world::{OptSet, Phys, World};

// ---------------------------------------------------------------------------
// Cases
// ---------------------------------------------------------------------------

#[derive(Clone, Debug)]
pub enum Case {
	/// in-memory table: (name, block size, restart, partition, snappy, bloom, entries)
	MemTable(&'static str, usize, usize, usize, bool, bool, usize),
	/// database file: (name, option-set builder id, file selector)
	DbFile(&'static str, &'static str),
}

pub fn cases(tier: Tier) -> Vec<Case> {
	let mut v = vec![
		Case::MemTable("mem-bs64-bloom", 64, 2, 64, false, true, 10),
		Case::MemTable("mem-bs20-ps1-snappy", 20, 1, 1, true, true, 14),
		Case::MemTable("mem-bs4096-nobloom", 4096, 16, 16384, false, false, 14),
		Case::DbFile("db-table-L1", "sst-l1"),
		Case::DbFile("db-table-L0", "sst-l0"),
		Case::DbFile("db-wal-absolute", "wal"),
		Case::DbFile("db-vlog-fullcheck", "vlog"),
		Case::DbFile("db-table-L1-big-snappy", "sst-l1-big"),
		Case::DbFile("db-table-versioned", "sst-versioned"),
		Case::DbFile("db-vlog-first-of-several", "vlog-first"),
		Case::DbFile("db-wal-two-blocks", "wal-big"),
	];
	if tier == Tier::Thorough {
		v.extend([
			Case::MemTable("mem-bs64-ps64-snappy-40", 64, 4, 64, true, true, 40),
			Case::MemTable("mem-bs20-ps1-nobloom-40", 20, 1, 1, false, false, 40),
		]);
	}
	v
}

fn case_name(c: &Case) -> &'static str {
	match c {
		Case::MemTable(n, ..) => n,
		Case::DbFile(n, _) => n,
	}
}

fn mem_entries(n: usize) -> Vec<VEntry> {
	let mut v = vec![];
	for i in 0..n {
		let key = format!("key{:02}", i / 2).into_bytes();
		let seq = if i % 2 == 0 { 9 } else { 4 };
		v.push(VEntry {
			user_key: key,
			seq,
			kind: if i % 5 == 3 { 0 } else { 2 },
			ts: 100 + i as u64,
			value: if i % 5 == 3 { vec![] } else { format!("value-{i}-{}", "x".repeat(i % 7)).into_bytes() },
		});
	}
	v
}

fn mem_options(bs: usize, ri: usize, ps: usize, snappy: bool, bloom: bool) -> Arc<Options> {
	static BASE: std::sync::OnceLock<Options> = std::sync::OnceLock::new();
	let mut o = BASE
		.get_or_init(Options::new)
		.clone()
		.with_block_size(bs)
		.with_block_restart_interval(ri)
		.with_index_partition_size(ps)
		.with_block_cache_capacity(0);
	if !bloom {
		o = o.with_filter_policy(None);
	}
	if snappy {
		o = o.with_compression_per_level(vec![CompressionType::SnappyCompression]);
	}
	Arc::new(o)
}

/// All answers of a table (each either a value or an error string).
type Answers = Vec<(String, Result<String, String>)>;

fn table_answers(opts: &Arc<Options>, bytes: Vec<u8>, entries: &[VEntry]) -> Result<Answers, String> {
	// through a real file: the in-memory File implementation used by the crate's own tests
	// panics on out-of-range reads, which production files report as errors
	thread_local! {
		static PATH: PathBuf = fresh_dir("c16t").join("t.sst");
	}
	let path = PATH.with(|p| p.clone());
	std::fs::write(&path, &bytes).map_err(|e| format!("write: {e}"))?;
	let t = VTable::open_file(opts, 7, &path).map_err(|e| format!("open: {e}"))?;
	let mut out: Answers = vec![];
	let mut keys: BTreeSet<Vec<u8>> = entries.iter().map(|e| e.user_key.clone()).collect();
	keys.insert(b"key".to_vec());
	keys.insert(b"key99".to_vec());
	keys.insert(b"key01x".to_vec());
	for k in &keys {
		for snap in [0u64, 4, 5, 9, 10] {
			let r = t.get(k, snap).map(|o| format!("{o:?}")).map_err(|e| format!("{e}"));
			out.push((format!("get({},{snap})", String::from_utf8_lossy(k)), r));
		}
	}
	let unb = Bound::Unbounded;
	for fwd in [true, false] {
		let r = (|| -> Result<String, String> {
			let mut it = t.iter(&unb, &unb).map_err(|e| format!("{e}"))?;
			let mut got = vec![];
			let mut ok = (if fwd { it.seek_first() } else { it.seek_last() }).map_err(|e| format!("{e}"))?;
			while ok {
				got.push(it.entry().map_err(|e| format!("{e}"))?);
				ok = (if fwd { it.next() } else { it.prev() }).map_err(|e| format!("{e}"))?;
				if got.len() > 10_000 {
					return Ok("LOOP".into());
				}
			}
			Ok(format!("{got:?}"))
		})();
		out.push((if fwd { "scan-fwd" } else { "scan-bwd" }.to_string(), r));
	}
	Ok(out)
}

// ---------------------------------------------------------------------------
// Database cases
// ---------------------------------------------------------------------------

struct DbBase {
	dir: PathBuf,
	opt: OptSet,
	file: String,
	bytes: Vec<u8>,
}

fn build_db(sel: &str) -> Result<DbBase, String> {
	let mut opt = match sel {
		"vlog" => {
			let mut o = OptSet::base("L2-vlog8-fullcheck").with_vlog(8, 4096);
			o.vlog_checksum = true;
			o
		}
		"wal" => {
			let mut o = OptSet::base("L2-absolute");
			o.absolute_consistency = true;
			o
		}
		"vlog-first" => {
			let mut o = OptSet::base("L2-vlog8-64-fullcheck").with_vlog(8, 64);
			o.vlog_checksum = true;
			o
		}
		"wal-big" => {
			let mut o = OptSet::base("L2-absolute-big");
			o.absolute_consistency = true;
			o
		}
		"sst-l1-big" => OptSet::base("L2-bs256-snappy").cache(0).snappy(),
		"sst-versioned" => OptSet::base("L2-bs64-versioned").cache(0).versioned(0, false),
		_ => OptSet::base("L2-bs64").cache(0),
	};
	if sel.starts_with("sst") {
		opt.block_size = if sel == "sst-l1-big" { 256 } else { 64 };
		opt.index_partition_size = if sel == "sst-l1-big" { 128 } else { 64 };
		opt.restart = 2;
	}
	let mut w = World::new(opt.clone(), &[])?;
	w.own_dir = false;
	let val = |i: usize| format!("value-{i}-{}", "y".repeat(10 + i % 5)).into_bytes();
	for i in 0..6 {
		w.commit(&[Write::set(format!("k{i}").as_bytes(), &val(i))], Durability::Eventual)?.map_err(|e| e)?;
	}
	if sel == "sst-l1-big" {
		for i in 10..50 {
			w.commit(&[Write::set(format!("k{i}").as_bytes(), &val(i))], Durability::Eventual)?.map_err(|e| e)?;
		}
	}
	if sel == "sst-versioned" {
		// several versions of k2 and a soft delete: time-travel reads go through the same blocks
		w.commit(&[Write::set(b"k2", b"second-version-of-k2")], Durability::Eventual)?.map_err(|e| e)?;
		w.commit(&[Write::new(crate::model::Kind::SoftDelete, b"k3", b"")], Durability::Eventual)?.map_err(|e| e)?;
	}
	if sel == "wal-big" {
		// a record that straddles the 32 KiB block boundary (First/Last fragments), then small ones
		let big = vec![b'w'; 33_000];
		w.commit(&[Write::set(b"k6", &big)], Durability::Eventual)?.map_err(|e| e)?;
		w.commit(&[Write::set(b"k7", b"after-the-big-one")], Durability::Eventual)?.map_err(|e| e)?;
	}
	w.commit(&[Write::new(crate::model::Kind::Delete, b"k1", b"")], Durability::Eventual)?.map_err(|e| e)?;
	let is_wal = sel == "wal" || sel == "wal-big";
	if !is_wal {
		w.physical(Phys::FlushAll)?;
	}
	if sel == "sst-l1" || sel == "manifest" || sel == "sst-l1-big" {
		w.physical(Phys::Compact)?;
	}
	if !is_wal {
		// something unflushed on top
		w.commit(&[Write::set(b"k9", b"tail")], Durability::Eventual)?.map_err(|e| e)?;
	}
	w.close()?;
	let dir = w.dir.clone();
	let sub = match sel {
		"wal" | "wal-big" => "wal",
		"vlog" | "vlog-first" => "vlog",
		"manifest" => "manifest",
		_ => "sstables",
	};
	let mut files: Vec<PathBuf> = std::fs::read_dir(dir.join(sub)).map_err(|e| format!("{e}"))?.flatten().map(|e| e.path()).filter(|p| p.is_file()).collect();
	files.sort();
	let f = if sel == "vlog-first" { files.first() } else { files.last() }.ok_or_else(|| format!("no file under {sub}"))?.clone();
	let bytes = std::fs::read(&f).map_err(|e| format!("{e}"))?;
	Ok(DbBase {
		dir,
		opt,
		file: f.strip_prefix(&w.dir).unwrap().to_string_lossy().to_string(),
		bytes,
	})
}

fn db_answers(dir: &Path, opt: &OptSet) -> Result<Answers, String> {
	let mut w = World::attach(opt.clone(), dir, &[]);
	w.open().map_err(|e| format!("open: {e}"))?;
	let mut out: Answers = vec![];
	{
		let _g = w.rt.as_ref().unwrap().enter();
		let txn = w.tree().begin_with_mode(Mode::ReadOnly).map_err(|e| format!("begin: {e}"))?;
		for k in ["k0", "k1", "k2", "k3", "k4", "k5", "k9", "kx"] {
			let r = txn.get(k.as_bytes()).map(|o| format!("{:?}", o.map(|v| String::from_utf8_lossy(&v).to_string()))).map_err(|e| format!("{e}"));
			out.push((format!("get({k})"), r));
		}
		for fwd in [true, false] {
			let r = txn.range(crate::world::LO, crate::world::HI).map_err(|e| format!("{e}")).and_then(|mut it| if fwd { crate::world::scan_fwd(&mut it) } else { crate::world::scan_bwd(&mut it) }).map(|p| format!("{:?}", p.iter().map(|(k, v)| format!("{}={}", String::from_utf8_lossy(k), crate::util::fnv64(v))).collect::<Vec<_>>()));
			out.push((if fwd { "scan-fwd" } else { "scan-bwd" }.to_string(), r));
		}
		if opt.versioning.is_some() {
			let o = surrealkv::HistoryOptions::new().with_tombstones(true);
			let r = txn.history_with_options(crate::world::LO, crate::world::HI, &o).map_err(|e| format!("{e}")).and_then(|mut it| {
				use surrealkv::LSMIterator;
				let mut v = vec![];
				let mut ok = it.seek_first().map_err(|e| format!("{e}"))?;
				while ok && v.len() < 200 {
					let k = it.key().user_key().to_vec();
					let val = if it.key().is_tombstone() { None } else { Some(it.value().map_err(|e| format!("{e}"))?) };
					v.push(format!("{}@{}={:?}", String::from_utf8_lossy(&k), it.key().timestamp(), val.map(|x| crate::util::fnv64(&x))));
					ok = it.next().map_err(|e| format!("{e}"))?;
				}
				Ok(format!("{v:?}"))
			});
			out.push(("history".to_string(), r));
		}
	}
	// the same reads after the store itself has rewritten what it read: a flush and a compaction
	// round must not turn altered bytes into "valid" different data
	let maint = w.physical(Phys::FlushAll).and_then(|_| w.physical(Phys::Compact));
	{
		let _g = w.rt.as_ref().unwrap().enter();
		let txn = w.tree().begin_with_mode(Mode::ReadOnly).map_err(|e| format!("begin: {e}"))?;
		for k in ["k0", "k2", "k3", "k5", "k9"] {
			let r = match &maint {
				Err(e) => Err(format!("maintenance failed: {e}")),
				Ok(()) => txn.get(k.as_bytes()).map(|o| format!("{:?}", o.map(|v| String::from_utf8_lossy(&v).to_string()))).map_err(|e| format!("{e}")),
			};
			out.push((format!("after-compaction:get({k})"), r));
		}
		let r = match &maint {
			Err(e) => Err(format!("maintenance failed: {e}")),
			Ok(()) => txn.range(crate::world::LO, crate::world::HI).map_err(|e| format!("{e}")).and_then(|mut it| crate::world::scan_fwd(&mut it)).map(|p| format!("{:?}", p.iter().map(|(k, v)| format!("{}={}", String::from_utf8_lossy(k), crate::util::fnv64(v))).collect::<Vec<_>>())),
		};
		out.push(("after-compaction:scan-fwd".to_string(), r));
	}
	w.abandon();
	Ok(out)
}

// ---------------------------------------------------------------------------
// Worker
// ---------------------------------------------------------------------------

fn compare(pristine: &Answers, got: &Answers) -> Option<(String, String)> {
	for ((q, p), (_, g)) in pristine.iter().zip(got.iter()) {
		match (p, g) {
			(_, Err(_)) => {}
			(Ok(pv), Ok(gv)) if pv == gv => {}
			(Ok(pv), Ok(gv)) => {
				let op = q.split('(').next().unwrap_or("");
				return Some((format!("different-data:{op}"), format!("{q}: pristine {} | damaged {}", pv.chars().take(160).collect::<String>(), gv.chars().take(160).collect::<String>())));
			}
			(Err(pe), Ok(gv)) => return Some(("different-data:error-became-data".into(), format!("{q}: pristine Err({pe}) | damaged {gv}"))),
		}
	}
	None
}

/// `vharness worker c16 <case> <tier> <start> <end> <progress file>`: damage positions
/// [start, end) × {each bit, xor 0xff}; prints one JSON line per finding, then DONE.
pub fn worker(args: &[String]) -> i32 {
	use std::io::Write as _;
	let case_name_arg = &args[0];
	let tier = if args[1] == "thorough" { Tier::Thorough } else { Tier::Quick };
	let start: usize = args[2].parse().unwrap();
	let end: usize = args[3].parse().unwrap();
	let progress = PathBuf::from(&args[4]);
	let base_dir = args.get(5).map(PathBuf::from);
	let Some(case) = cases(tier).into_iter().chain(cases(Tier::Thorough)).find(|c| case_name(c) == case_name_arg) else {
		println!("{}", json!({"machinery": "unknown case"}));
		return 2;
	};
	let out = std::io::stdout();
	let note = |pos: usize, mask: u8| {
		let _ = std::fs::write(&progress, format!("{pos} {mask}"));
	};
	match case {
		Case::MemTable(_, bs, ri, ps, snappy, bloom, n) => {
			let opts = mem_options(bs, ri, ps, snappy, bloom);
			let entries = mem_entries(n);
			let bytes = verif_write_table(&opts, 7, 0, &entries).expect("write table");
			let pristine = table_answers(&opts, bytes.clone(), &entries).expect("pristine table");
			for pos in start..end.min(bytes.len()) {
				for mask in [0u8, 1, 2, 4, 8, 16, 32, 64, 128, 0xff] {
					note(pos, mask);
					let mut b = bytes.clone();
					if mask == 0 {
						b.truncate(pos); // truncation at every offset (a superset of every block boundary)
					} else {
						b[pos] ^= mask;
					}
					let r = crate::util::guarded(|| table_answers(&opts, b, &entries));
					let f = match r {
						Ok(Err(_)) => None, // open failed with an error: fine
						Ok(Ok(a)) => compare(&pristine, &a),
						Err(p) => Some((format!("panic:{}", panic_site(&p)), p)),
					};
					if let Some((class, text)) = f {
						let _ = writeln!(out.lock(), "{}", json!({"pos": pos, "mask": mask, "class": class, "text": text}));
					}
				}
			}
		}
		Case::DbFile(_, _sel) => {
			let base_dir = base_dir.expect("base dir");
			let meta: J = serde_json::from_str(&std::fs::read_to_string(base_dir.join("c16-meta.json")).unwrap()).unwrap();
			let opt = OptSet::from_json(&meta["options"]);
			let file = meta["file"].as_str().unwrap().to_string();
			let bytes = std::fs::read(base_dir.join(&file)).unwrap();
			let pristine: Answers = meta["pristine"].as_array().unwrap().iter().map(|e| (e[0].as_str().unwrap().to_string(), if e[1].is_null() { Err(e[2].as_str().unwrap().to_string()) } else { Ok(e[1].as_str().unwrap().to_string()) })).collect();
			let work = fresh_dir("c16w");
			for pos in start..end.min(bytes.len()) {
				let is_table = file.contains("sstables/");
				let masks: Vec<u8> = if is_table { vec![0, 1, 2, 4, 8, 16, 32, 64, 128, 0xff] } else { vec![1, 2, 4, 8, 16, 32, 64, 128, 0xff] };
				for mask in masks {
					note(pos, mask);
					let d = work.join("db");
					let _ = std::fs::remove_dir_all(&d);
					crate::util::copy_dir(&base_dir, &d).unwrap();
					let mut b = bytes.clone();
					if mask == 0 {
						b.truncate(pos);
					} else {
						b[pos] ^= mask;
					}
					std::fs::write(d.join(&file), &b).unwrap();
					let r = crate::util::guarded(|| db_answers(&d, &opt));
					let f = match r {
						Ok(Err(_)) => None,
						Ok(Ok(a)) => compare(&pristine, &a),
						Err(p) => Some((format!("panic:{}", panic_site(&p)), p)),
					};
					if let Some((class, text)) = f {
						let _ = writeln!(out.lock(), "{}", json!({"pos": pos, "mask": mask, "class": class, "text": text}));
					}
				}
			}
			let _ = std::fs::remove_dir_all(&work);
		}
	}
	let _ = writeln!(out.lock(), "DONE");
	0
}

fn panic_site(p: &str) -> String {
	// call-site identity: "file:line" of the panic plus the first words of its message
	let site = p.rsplit(" at ").next().unwrap_or("").trim();
	let msg: String = p.trim_start_matches("panic: ").split_whitespace().take(3).collect::<Vec<_>>().join(" ");
	format!("{}:{}", site.replace("/repo/", ""), crate::props::norm_msg(&msg))
}

// ---------------------------------------------------------------------------
// Parent
// ---------------------------------------------------------------------------

struct Chunk {
	case: Case,
	start: usize,
	end: usize,
	base_dir: Option<PathBuf>,
}

struct ChunkOut {
	findings: Vec<(usize, u8, String, String)>,
	flips: u64,
	deaths: u64,
}

fn run_chunk(c: &Chunk, tier: Tier, budget: &Budget) -> Result<ChunkOut, String> {
	let exe = std::env::current_exe().map_err(|e| format!("{e}"))?;
	let mut out = ChunkOut {
		findings: vec![],
		flips: 0,
		deaths: 0,
	};
	let mut start = c.start;
	let progress = crate::util::scratch_root().join(format!("c16-progress-{}-{}-{}", case_name(&c.case), c.start, std::process::id()));
	let _ = std::fs::create_dir_all(crate::util::scratch_root());
	while start < c.end {
		if budget.exhausted() {
			break;
		}
		let _ = std::fs::write(&progress, format!("{start} 0"));
		let mut cmd = std::process::Command::new(&exe);
		cmd.arg("worker").arg("c16").arg(case_name(&c.case)).arg(tier.as_str()).arg(start.to_string()).arg(c.end.to_string()).arg(&progress);
		if let Some(b) = &c.base_dir {
			cmd.arg(b);
		}
		cmd.env("RAYON_NUM_THREADS", "1").stdout(std::process::Stdio::piped()).stderr(std::process::Stdio::null());
		let mut child = cmd.spawn().map_err(|e| format!("spawn: {e}"))?;
		// watchdog: no progress for 30 s = hang
		let t0 = std::time::Instant::now();
		let mut last = String::new();
		let mut last_change = std::time::Instant::now();
		let mut hung = false;
		loop {
			match child.try_wait() {
				Ok(Some(_)) => break,
				Ok(None) => {
					let cur = std::fs::read_to_string(&progress).unwrap_or_default();
					if cur != last {
						last = cur;
						last_change = std::time::Instant::now();
					} else if last_change.elapsed().as_secs() > 30 {
						hung = true;
						let _ = child.kill();
						let _ = child.wait();
						break;
					}
					if t0.elapsed().as_secs() > 3600 {
						let _ = child.kill();
						let _ = child.wait();
						return Err("worker exceeded 1 h".into());
					}
					std::thread::sleep(std::time::Duration::from_millis(5));
				}
				Err(e) => return Err(format!("{e}")),
			}
		}
		let o = child.wait_with_output().map_err(|e| format!("{e}"))?;
		let text = String::from_utf8_lossy(&o.stdout).to_string();
		let mut done = false;
		for l in text.lines() {
			if l == "DONE" {
				done = true;
			} else if let Ok(j) = serde_json::from_str::<J>(l) {
				if let Some(m) = j.get("machinery") {
					return Err(format!("worker: {m}"));
				}
				out.findings.push((j["pos"].as_u64().unwrap() as usize, j["mask"].as_u64().unwrap() as u8, j["class"].as_str().unwrap().to_string(), j["text"].as_str().unwrap().to_string()));
			}
		}
		if done {
			start = c.end;
		} else {
			// the worker died (abort, signal) or hung at the recorded position
			out.deaths += 1;
			let cur = std::fs::read_to_string(&progress).unwrap_or_default();
			let mut it = cur.split_whitespace();
			let pos: usize = it.next().and_then(|s| s.parse().ok()).unwrap_or(start);
			let mask: u8 = it.next().and_then(|s| s.parse().ok()).unwrap_or(0);
			let class = if hung { "hang".to_string() } else { format!("process-died:{:?}", o.status.code().map(|c| c.to_string()).unwrap_or("signal".into())) };
			out.findings.push((pos, mask, class, format!("worker {} at position {pos} mask {mask:#x}", if hung { "hung" } else { "died" })));
			start = pos + 1;
		}
	}
	let _ = std::fs::remove_file(&progress);
	out.flips = (start.min(c.end) - c.start) as u64;
	Ok(out)
}

pub fn check(tier: Tier) -> i32 {
	let mut report = Report::new("C16", tier, "fault_enumeration");
	let budget = Budget::new(if tier == Tier::Quick { 50.0 } else { 1100.0 });
	let cs = cases(tier);
	let mut chunks: Vec<Chunk> = vec![];
	let mut case_sizes: BTreeMap<&'static str, usize> = BTreeMap::new();
	let mut bases: Vec<PathBuf> = vec![];
	for c in &cs {
		let (len, base_dir) = match c {
			Case::MemTable(_, bs, ri, ps, snappy, bloom, n) => {
				let opts = mem_options(*bs, *ri, *ps, *snappy, *bloom);
				match verif_write_table(&opts, 7, 0, &mem_entries(*n)) {
					Ok(b) => (b.len(), None),
					Err(e) => {
						eprintln!("machinery: cannot build {}: {e}", case_name(c));
						return 2;
					}
				}
			}
			Case::DbFile(_, sel) => match build_db(sel) {
				Ok(b) => {
					let pristine = match db_answers(&{
						// answers are taken on a copy so that the base stays untouched
						let d = fresh_dir("c16p");
						crate::util::copy_dir(&b.dir, &d).unwrap();
						d
					}, &b.opt)
					{
						Ok(a) => a,
						Err(e) => {
							eprintln!("machinery: pristine database {} does not read: {e}", case_name(c));
							return 2;
						}
					};
					let meta = json!({"options": b.opt.to_json(), "file": b.file, "pristine": pristine.iter().map(|(q, r)| match r { Ok(v) => json!([q, v, J::Null]), Err(e) => json!([q, J::Null, e]) }).collect::<Vec<_>>()});
					std::fs::write(b.dir.join("c16-meta.json"), serde_json::to_string(&meta).unwrap()).unwrap();
					bases.push(b.dir.clone());
					(b.bytes.len(), Some(b.dir))
				}
				Err(e) => {
					eprintln!("machinery: cannot build {}: {e}", case_name(c));
					return 2;
				}
			},
		};
		case_sizes.insert(case_name(c), len);
		let nchunks = 16.min(len.max(1));
		let per = len.div_ceil(nchunks);
		let mut s = 0;
		while s < len {
			chunks.push(Chunk {
				case: c.clone(),
				start: s,
				end: (s + per).min(len),
				base_dir: base_dir.clone(),
			});
			s += per;
		}
	}
	let results: Mutex<Vec<(usize, Result<ChunkOut, String>)>> = Mutex::new(vec![]);
	chunks.par_iter().enumerate().for_each(|(i, c)| {
		let r = run_chunk(c, tier, &budget);
		results.lock().unwrap().push((i, r));
	});
	let mut results = results.into_inner().unwrap();
	results.sort_by_key(|r| r.0);
	let mut positions = 0u64;
	let mut total_positions = 0u64;
	let mut per_class: BTreeMap<String, u64> = BTreeMap::new();
	let mut first: BTreeMap<String, (String, J)> = BTreeMap::new();
	let mut deaths = 0;
	for (i, r) in results {
		let c = &chunks[i];
		total_positions += (c.end - c.start) as u64;
		match r {
			Err(e) => {
				eprintln!("machinery: {e}");
				return 2;
			}
			Ok(o) => {
				positions += o.flips;
				deaths += o.deaths;
				for (pos, mask, class, text) in o.findings {
					let class = format!("{}:{}", case_kind(&c.case), class);
					*per_class.entry(class.clone()).or_default() += 1;
					first.entry(class).or_insert((format!("[{}] byte {pos} xor {mask:#04x} => {text}", case_name(&c.case)), json!({"engine": "c16", "case": case_name(&c.case), "pos": pos, "mask": mask})));
				}
			}
		}
	}
	for b in bases {
		let _ = std::fs::remove_dir_all(b);
	}
	for (class, n) in &per_class {
		let (text, replay) = first.get(class).cloned().unwrap_or_default();
		report.violations.push(Violation {
			class: class.clone(),
			what: text,
			replay,
		});
		for _ in 1..*n {
			report.violations.push(Violation {
				class: class.clone(),
				what: String::new(),
				replay: J::Null,
			});
		}
	}
	let masks_mem = 9u64;
	report.set("evaluations", json!(positions * masks_mem));
	report.set("distinct_nontrivial", json!(positions));
	report.set("rule", json!("every byte position of each case file x {8 single-bit flips, xor 0xff} plus, for table files, truncation at that offset; in-memory tables: open + get(key, snapshot) for every key incl. absent ones x 5 snapshots + forward and backward scan; database files: open + get of 8 keys + both scans; each answer must equal the pristine answer or be an error; non-trivial/distinct = damaged positions evaluated"));
	report.set("samples", json!(["[mem-bs64-bloom] byte 17 xor 0x04", "[db-wal-absolute] byte 130 xor 0xff", "[db-vlog-fullcheck] byte 40 xor 0x01"]));
	report.set("case_file_sizes", json!(case_sizes));
	report.set("positions_total", json!(total_positions));
	report.set("positions_evaluated", json!(positions));
	report.set("worker_deaths", json!(deaths));
	report.set("exhaustive", json!(positions == total_positions));
	report.set("failures_per_class", json!(per_class));
	report.assume("single-bit and single-byte damage, and truncation of table files at every offset (a superset of every block boundary); multi-byte damage is not part of this sweep");
	report.assume("value-log case runs with VLogChecksumLevel::Full, commit-log case with WalRecoveryMode::AbsoluteConsistency (in repair mode a truncated-but-consistent prefix is the documented outcome and is judged by C12)");
	report.finish()
}

fn case_kind(c: &Case) -> &'static str {
	match c {
		Case::MemTable(..) => "table",
		Case::DbFile(_, sel) => match *sel {
			"wal" => "wal",
			"vlog" => "vlog",
			_ => "db-table",
		},
	}
}

pub fn replay(r: &J) -> i32 {
	let name = r["case"].as_str().unwrap_or("").to_string();
	let pos = r["pos"].as_u64().unwrap() as usize;
	let mask = r["mask"].as_u64().unwrap() as u8;
	let Some(case) = cases(Tier::Thorough).into_iter().find(|c| case_name(c) == name) else {
		eprintln!("machinery: unknown case {name}");
		return 2;
	};
	println!("replaying C16 [{name}] byte {pos} xor {mask:#04x} (in a worker subprocess)");
	let base = match &case {
		Case::DbFile(_, sel) => match build_db(sel) {
			Ok(b) => {
				let d = fresh_dir("c16p");
				crate::util::copy_dir(&b.dir, &d).unwrap();
				let pristine = db_answers(&d, &b.opt).unwrap_or_default();
				let meta = json!({"options": b.opt.to_json(), "file": b.file, "pristine": pristine.iter().map(|(q, r)| match r { Ok(v) => json!([q, v, J::Null]), Err(e) => json!([q, J::Null, e]) }).collect::<Vec<_>>()});
				std::fs::write(b.dir.join("c16-meta.json"), serde_json::to_string(&meta).unwrap()).unwrap();
				Some(b.dir)
			}
			Err(e) => {
				eprintln!("machinery: {e}");
				return 2;
			}
		},
		_ => None,
	};
	let budget = Budget::new(120.0);
	let mut classes = vec![];
	for _ in 0..2 {
		let c = Chunk {
			case: case.clone(),
			start: pos,
			end: pos + 1,
			base_dir: base.clone(),
		};
		match run_chunk(&c, Tier::Thorough, &budget) {
			Ok(o) => classes.push(o.findings.into_iter().filter(|f| f.1 == mask).map(|f| (f.2, f.3)).collect::<Vec<_>>()),
			Err(e) => {
				eprintln!("machinery: {e}");
				return 2;
			}
		}
	}
	if let Some(b) = base {
		let _ = std::fs::remove_dir_all(b);
	}
	if classes[0].iter().map(|c| &c.0).collect::<Vec<_>>() != classes[1].iter().map(|c| &c.0).collect::<Vec<_>>() {
		eprintln!("machinery: replay not deterministic");
		return 2;
	}
	if classes[0].is_empty() {
		println!("replay passed: no violation");
		0
	} else {
		println!("VIOLATION property=C16 replay=<this file>");
		for (c, t) in &classes[0] {
			println!("  class={c} {t}");
		}
		1
	}
}
