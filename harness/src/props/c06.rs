//! C06 — flush, compaction, caching and reopen never change query answers.
//!
//! Enumerates every logical history of n single-write transactions over 2 colliding keys × 4 write
//! kinds, crossed with every placement of ≤ d physical operations (rotate, flush-oldest, flush-all,
//! compaction round, background drain, clean reopen), per option set; after every step a fresh
//! transaction's point reads and both scan directions must equal the KvModel.

use serde_json::json;

use crate::model::{Kind, Write};
use crate::props::{classify_world_failure, run_world_space, SpaceStats};
use crate::util::{Budget, Report, Tier};
use crate::world::{ops_short, Op, OptSet, Phys, WorldFailure};

pub const KEYS: [&[u8]; 2] = [b"a", b"b"];
pub const PROBE: [&[u8]; 3] = [b"a", b"b", b"c"];

pub fn option_sets(tier: Tier) -> Vec<OptSet> {
	let mut v = vec![
		OptSet::base("L2").levels(2),
		OptSet::base("L3-tinyblocks-nobloom").levels(3).tiny_blocks().no_bloom(),
		OptSet::base("L2-vlog8-64").levels(2).with_vlog(8, 64),
		OptSet::base("L2-versioned").levels(2).versioned(0, false),
	];
	if tier == Tier::Thorough {
		v.extend([
			OptSet::base("L1").levels(1),
			OptSet::base("L3-snappy-cache0").levels(3).snappy().cache(0),
			OptSet::base("L2-versioned-index").levels(2).versioned(0, true),
			OptSet::base("L2-flush-on-close").levels(2).flush_close(true),
		]);
	}
	v
}

/// value tokens: distinguishable, and long enough to cross the vlog threshold of 8
pub fn token(i: usize) -> Vec<u8> {
	if i % 2 == 0 {
		format!("v{i}").into_bytes()
	} else {
		format!("value-{i}-0123456789").into_bytes()
	}
}

pub fn write_choices() -> Vec<(Kind, &'static [u8])> {
	let mut v = vec![];
	for kind in [Kind::Set, Kind::Delete, Kind::SoftDelete, Kind::Replace] {
		for k in KEYS {
			v.push((kind, k));
		}
	}
	v
}

pub const PHYS: [Phys; 6] =
	[Phys::FlushAll, Phys::Compact, Phys::Reopen, Phys::Rotate, Phys::FlushOldest, Phys::Drain];

/// All op lists with exactly `n` writes and exactly `d` physical ops (no physical op before the
/// first write: the store is empty there).
pub fn gen_lists(n: usize, d: usize, out: &mut Vec<Vec<Op>>) {
	fn rec(n: usize, d: usize, wi: usize, cur: &mut Vec<Op>, out: &mut Vec<Vec<Op>>) {
		if n == 0 && d == 0 {
			out.push(cur.clone());
			return;
		}
		if n > 0 {
			for (kind, k) in write_choices() {
				// a delete-kind as very first write is covered but trivial; keep it (absent key delete)
				cur.push(Op::W(vec![Write::new(kind, k, &token(wi))]));
				rec(n - 1, d, wi + 1, cur, out);
				cur.pop();
			}
		}
		if d > 0 && wi > 0 {
			for p in PHYS {
				cur.push(Op::P(p));
				rec(n, d - 1, wi, cur, out);
				cur.pop();
			}
		}
	}
	rec(n, d, 0, &mut vec![], out);
}

pub const GEO_PROBE: [&[u8]; 4] = [b"a", b"b", b"c", b"d"];

/// Three flushes; each flushed table holds one or two writes (set / delete) on keys a<b<c<d, so
/// that table key ranges nest, overlap, touch and lie apart in every way.
pub fn geometry_lists() -> Vec<Vec<Op>> {
	let keys: [&[u8]; 4] = [b"a", b"b", b"c", b"d"];
	let kinds = [Kind::Set, Kind::Delete];
	let mut contents: Vec<Vec<(Kind, &[u8])>> = vec![];
	for k in keys {
		for kind in kinds {
			contents.push(vec![(kind, k)]);
		}
	}
	for i in 0..keys.len() {
		for j in i + 1..keys.len() {
			for k1 in kinds {
				for k2 in kinds {
					contents.push(vec![(k1, keys[i]), (k2, keys[j])]);
				}
			}
		}
	}
	let mut out = vec![];
	for c1 in &contents {
		for c2 in &contents {
			for c3 in &contents {
				for compact_after in 0..4u8 {
					let mut ops = vec![];
					let mut wi = 0;
					for (fi, c) in [c1, c2, c3].into_iter().enumerate() {
						for (kind, k) in c {
							ops.push(Op::W(vec![Write::new(*kind, k, &token(wi))]));
							wi += 1;
						}
						ops.push(Op::P(Phys::FlushAll));
						if fi < 2 && compact_after & (1 << fi) != 0 {
							ops.push(Op::P(Phys::Compact));
						}
					}
					ops.push(Op::P(Phys::Compact));
					ops.push(Op::P(Phys::Compact));
					out.push(ops);
				}
			}
		}
	}
	out
}

fn classify(f: &WorldFailure, _ops: &[Op], _opt: &OptSet) -> String {
	classify_world_failure(f)
}

pub fn check(tier: Tier) -> i32 {
	surrealkv::verif::set_forced_height(1);
	let mut report = Report::new("C06", tier, "model_checking");
	let budget = Budget::new(if tier == Tier::Quick { 45.0 } else { 900.0 });
	// bounds, simplest first: (n writes, d physical ops)
	let bounds: Vec<(usize, usize)> = if tier == Tier::Quick {
		vec![(1, 1), (2, 1), (2, 2), (3, 1), (3, 2)]
	} else {
		vec![(1, 1), (2, 1), (2, 2), (3, 1), (3, 2), (2, 3), (3, 3), (4, 1), (4, 2), (4, 3)]
	};
	let opts = option_sets(tier);
	let mut stats = SpaceStats::default();
	let mut completed: Vec<String> = vec![];
	let mut samples = vec![];
	let mut all_complete = true;
	'outer: for (n, d) in &bounds {
		let mut lists = vec![];
		gen_lists(*n, *d, &mut lists);
		if samples.len() < 4 {
			samples.push(json!(ops_short(&lists[lists.len() / 2])));
		}
		for opt in &opts {
			// the versioned set joins the quick tier only for the smaller bounds
			if tier == Tier::Quick && opt.versioning.is_some() && n + d > 4 {
				continue;
			}
			let done = run_world_space(&mut report, &mut stats, opt, &lists, &PROBE, &budget, &classify);
			if !done {
				all_complete = false;
				break 'outer;
			}
			completed.push(format!("n={n},d={d},opt={}", opt.name));
		}
	}
	// --- table-geometry family: which tables a compaction picks depends on the key ranges of
	// the tables in L0 and below; three flushes with every content over four ordered keys ---
	{
		let gbudget = Budget::new(if tier == Tier::Quick { 25.0 } else { 400.0 });
		let lists = geometry_lists();
		let gopts: Vec<OptSet> = if tier == Tier::Quick { vec![OptSet::base("L2").levels(2)] } else { vec![OptSet::base("L2").levels(2), OptSet::base("L3").levels(3), OptSet::base("L2-l0x2").levels(2).l0_files(2)] };
		samples.push(json!(ops_short(&lists[lists.len() * 3 / 5])));
		for opt in &gopts {
			let done = run_world_space(&mut report, &mut stats, opt, &lists, &GEO_PROBE, &gbudget, &classify);
			if !done {
				all_complete = false;
				break;
			}
			completed.push(format!("geometry family: all {} lists (3 flushes x 32 contents over keys a<b<c<d, optional compaction after the 1st and 2nd flush, two compaction rounds at the end), opt={}", lists.len(), opt.name));
		}
	}
	report.set("evaluations", json!(stats.evaluations));
	report.set("states", json!(stats.states.len().max(1)));
	report.set("transitions", json!(stats.transitions.max(1)));
	report.set("traces_validated_against_impl", json!(stats.evaluations));
	report.set("distinct_nontrivial", json!(stats.nontrivial.len()));
	report.set(
		"rule",
		json!("every list of n single-write transactions (2 keys x {set,delete,soft-delete,replace}) interleaved with exactly d physical ops from {F,C,O,R,F1,G}, none before the first write; non-trivial = at least one physical op changed the level shape (tables per level, immutables, WAL) or reopened the store; distinct by op list"),
	);
	report.set("samples", json!(samples));
	report.set("bounds_completed", json!(completed));
	report.set("exhaustive", json!(all_complete));
	report.set("option_sets", json!(opts.iter().map(|o| o.to_json()).collect::<Vec<_>>()));
	report.set("failures_per_class", json!(stats.per_class));
	report.assume("option sets and the 2-key/4-kind alphabet are fixed finite lists, not exhaustive over configurations/inputs");
	report.assume("sequential parts: background tasks run only at G and at close (single-threaded runtime driven by the harness)");
	// schedule part: two flushers (background flush and a checkpoint's synchronous flush) at once
	let code = crate::props::sched::run_into(&mut report, "C06", tier, if tier == Tier::Quick { 8.0 } else { 120.0 });
	if code != 0 {
		return code;
	}
	let ex = report.coverage.get("exhaustive").and_then(|v| v.as_bool()).unwrap_or(true);
	report.set("exhaustive", json!(ex && all_complete));
	report.finish()
}
