//! C12 — commit log reads back as an exact prefix; repair keeps all valid records.
//!
//! File level (real Wal writer, Reader and repair through the facade): for every record-length
//! sequence of a boundary-focused alphabet (× LZ4 on/off × session split), the resulting segment
//! is read back (must be identical), then damaged at every position of an enumerated set — every
//! truncation offset, every single-bit flip and byte XOR (all bytes of files up to a size bound,
//! otherwise every byte of every record header / padding area / first and last 16 payload bytes of
//! every fragment and every block boundary) — read, repaired when corruption is reported, read
//! again, appended to through a fresh writer and read a last time.
//! Oracle (LogModel): output = prefix of the appended records ⊇ every record wholly before the
//! damage, then EOF or a corruption report; repair keeps such a prefix; post-recovery appends are
//! read back. Store level: the same damage on the WAL of a small database, both recovery modes.

use std::collections::{BTreeMap, BTreeSet};
use std::path::{Path, PathBuf};
use std::sync::Mutex;

use rayon::prelude::*;
use serde_json::{json, Value as J};
use surrealkv::verif::{verif_wal_read_segment, verif_wal_read_segment_offsets, verif_wal_repair, VWal, VWalEnd};

use crate::util::{fresh_dir, Budget, Report, Tier, Violation};

const BLOCK: usize = 32 * 1024;
const HDR: usize = 7;

fn record(len: usize, tag: u8) -> Vec<u8> {
	// mildly compressible, distinguishable content
	(0..len).map(|i| (((i / 7) as u8).wrapping_mul(31)).wrapping_add(tag)).collect()
}

#[derive(Clone, Debug)]
pub struct Case {
	pub lens: Vec<usize>,
	pub lz4: bool,
	/// number of records written in the first session (rest in a second one)
	pub split: usize,
}

impl Case {
	fn name(&self) -> String {
		format!("lens={:?} lz4={} split={}", self.lens, self.lz4, self.split)
	}
	fn to_json(&self) -> J {
		json!({"lens": self.lens, "lz4": self.lz4, "split": self.split})
	}
	fn from_json(j: &J) -> Case {
		Case {
			lens: j["lens"].as_array().unwrap().iter().map(|x| x.as_u64().unwrap() as usize).collect(),
			lz4: j["lz4"].as_bool().unwrap(),
			split: j["split"].as_u64().unwrap() as usize,
		}
	}
}

fn seg_path(dir: &Path) -> PathBuf {
	dir.join(format!("{:020}.wal", 0))
}

/// Write the case's records with the real writer; returns the records.
fn write_case(dir: &Path, c: &Case) -> Result<Vec<Vec<u8>>, String> {
	let recs: Vec<Vec<u8>> = c.lens.iter().enumerate().map(|(i, l)| record(*l, i as u8 + 1)).collect();
	let mut w = VWal::open(dir, c.lz4).map_err(|e| format!("open: {e}"))?;
	for (i, r) in recs.iter().enumerate() {
		if i == c.split && i > 0 {
			w.close().map_err(|e| format!("close: {e}"))?;
			w = VWal::open(dir, c.lz4).map_err(|e| format!("reopen: {e}"))?;
			if w.active_log_number() != 0 {
				return Err(format!("reopen moved to segment {}", w.active_log_number()));
			}
		}
		w.append(r).map_err(|e| format!("append: {e}"))?;
	}
	w.close().map_err(|e| format!("close: {e}"))?;
	Ok(recs)
}

#[derive(Clone, Debug)]
pub enum Damage {
	Truncate(usize),
	Xor(usize, u8),
}

impl Damage {
	fn pos(&self) -> usize {
		match self {
			Damage::Truncate(p) | Damage::Xor(p, _) => *p,
		}
	}
	fn apply(&self, bytes: &[u8]) -> Vec<u8> {
		match self {
			Damage::Truncate(p) => bytes[..*p].to_vec(),
			Damage::Xor(p, m) => {
				let mut b = bytes.to_vec();
				b[*p] ^= m;
				b
			}
		}
	}
	fn short(&self) -> String {
		match self {
			Damage::Truncate(p) => format!("truncate@{p}"),
			Damage::Xor(p, m) => format!("xor@{p}^{m:#04x}"),
		}
	}
	fn to_json(&self) -> J {
		match self {
			Damage::Truncate(p) => json!({"truncate": p}),
			Damage::Xor(p, m) => json!({"xor": [p, m]}),
		}
	}
	fn from_json(j: &J) -> Damage {
		if let Some(p) = j.get("truncate") {
			Damage::Truncate(p.as_u64().unwrap() as usize)
		} else {
			Damage::Xor(j["xor"][0].as_u64().unwrap() as usize, j["xor"][1].as_u64().unwrap() as u8)
		}
	}
}

/// Offsets at which a physical record header starts, for an uncompressed-length-agnostic scan of
/// the pristine file: walk the blocks using the length fields (the pristine file is trusted here;
/// the walk is only used to choose damage positions, never to judge).
fn header_offsets(bytes: &[u8]) -> Vec<(usize, usize)> {
	let mut out = vec![];
	let mut off = 0usize;
	while off + HDR <= bytes.len() {
		let in_block = off % BLOCK;
		if BLOCK - in_block < HDR {
			off += BLOCK - in_block;
			continue;
		}
		let len = u16::from_be_bytes([bytes[off + 4], bytes[off + 5]]) as usize;
		let ty = bytes[off + 6];
		if ty == 0 && len == 0 {
			// padding: rest of block
			off += BLOCK - in_block;
			continue;
		}
		out.push((off, len));
		off += HDR + len;
	}
	out
}

fn damage_positions(bytes: &[u8], full_limit: usize) -> BTreeSet<usize> {
	let mut s = BTreeSet::new();
	if bytes.len() <= full_limit {
		s.extend(0..bytes.len());
		return s;
	}
	for (off, len) in header_offsets(bytes) {
		for p in off..(off + HDR + 16.min(len)).min(bytes.len()) {
			s.insert(p);
		}
		let end = (off + HDR + len).min(bytes.len());
		for p in end.saturating_sub(16)..end {
			s.insert(p);
		}
	}
	// block boundaries and their neighbourhood (padding areas)
	let mut b = BLOCK;
	while b < bytes.len() + 16 {
		for p in b.saturating_sub(16)..(b + 16).min(bytes.len()) {
			s.insert(p);
		}
		b += BLOCK;
	}
	for p in bytes.len().saturating_sub(32)..bytes.len() {
		s.insert(p);
	}
	s
}

fn is_prefix(got: &[Vec<u8>], all: &[Vec<u8>]) -> bool {
	got.len() <= all.len() && got.iter().zip(all).all(|(a, b)| a == b)
}

/// Judge one damaged file. Returns (class, text).
fn judge(work: &Path, c: &Case, recs: &[Vec<u8>], ends: &[u64], pristine: &[u8], d: &Damage) -> Option<(String, String)> {
	let wal_dir = work.join("wal");
	let _ = std::fs::remove_dir_all(&wal_dir);
	std::fs::create_dir_all(&wal_dir).ok()?;
	let seg = seg_path(&wal_dir);
	let damaged = d.apply(pristine);
	if damaged.is_empty() {
		return None; // an empty segment file: nothing to read, covered by the store-level part
	}
	std::fs::write(&seg, &damaged).ok()?;
	let n_before = ends.iter().filter(|e| (**e as usize) <= d.pos()).count();
	let dk = match d {
		Damage::Truncate(_) => "truncate",
		Damage::Xor(..) => "flip",
	};
	let r = crate::util::guarded(|| -> Option<(String, String)> {
		// 1. read the damaged file
		let (got, end) = match verif_wal_read_segment(&seg, 0) {
			Ok(x) => x,
			Err(e) => return Some((format!("read-error:{dk}"), format!("read: {e}"))),
		};
		if !is_prefix(&got, recs) {
			return Some((format!("garbage-record:{dk}"), format!("reader returned {} records that are not a prefix of the {} appended", got.len(), recs.len())));
		}
		if got.len() < n_before {
			return Some((format!("lost-valid-record:{dk}"), format!("reader returned {} records, {} lie wholly before the damage; end={end:?}", got.len(), n_before)));
		}
		if let VWalEnd::Other(m) = &end {
			return Some((format!("read-end-other:{dk}"), format!("reader ended with {m}")));
		}
		let mut kept = got.len();
		// 2. repair when corruption was reported (what the tolerant recovery mode does)
		if matches!(end, VWalEnd::Corruption { .. }) {
			if let Err(e) = verif_wal_repair(&wal_dir, 0) {
				return Some((format!("repair-error:{dk}"), format!("repair: {e}")));
			}
			if seg.exists() {
				let (got2, end2) = match verif_wal_read_segment(&seg, 0) {
					Ok(x) => x,
					Err(e) => return Some((format!("read-error-after-repair:{dk}"), format!("{e}"))),
				};
				if !is_prefix(&got2, recs) || got2.len() < n_before {
					return Some((format!("repair-lost-valid-record:{dk}"), format!("after repair {} records (prefix: {}), {} lie wholly before the damage", got2.len(), is_prefix(&got2, recs), n_before)));
				}
				if end2 != VWalEnd::Eof {
					return Some((format!("repair-not-clean:{dk}"), format!("after repair the reader still ends with {end2:?}")));
				}
				kept = got2.len();
			} else {
				if n_before > 0 {
					return Some((format!("repair-lost-valid-record:{dk}"), format!("repair deleted the segment although {n_before} records lie wholly before the damage")));
				}
				kept = 0;
			}
		}
		// 3. append two more records through a fresh writer and read again
		let extra = [record(50, 0xA1), record(3000, 0xA2)];
		{
			let mut w = match VWal::open(&wal_dir, c.lz4) {
				Ok(w) => w,
				Err(e) => return Some((format!("open-after-damage-error:{dk}"), format!("{e}"))),
			};
			for x in &extra {
				if let Err(e) = w.append(x) {
					return Some((format!("append-after-damage-error:{dk}"), format!("{e}")));
				}
			}
			if let Err(e) = w.close() {
				return Some((format!("close-after-damage-error:{dk}"), format!("{e}")));
			}
		}
		// the writer may have continued segment 0 or started a new one
		let mut all = vec![];
		let mut last_end = VWalEnd::Eof;
		let mut ids: Vec<u64> = std::fs::read_dir(&wal_dir)
			.ok()?
			.flatten()
			.filter_map(|e| e.file_name().to_string_lossy().strip_suffix(".wal").and_then(|s| s.parse().ok()))
			.collect();
		ids.sort();
		for id in ids {
			let p = wal_dir.join(format!("{id:020}.wal"));
			match verif_wal_read_segment(&p, id) {
				Ok((g, e)) => {
					all.extend(g);
					if e != VWalEnd::Eof {
						last_end = e;
						break;
					}
				}
				Err(e) => return Some((format!("read-error-after-append:{dk}"), format!("{e}"))),
			}
		}
		let mut expect: Vec<Vec<u8>> = recs[..kept].to_vec();
		expect.extend(extra.iter().cloned());
		if all != expect {
			let what = if all.len() < expect.len() && is_prefix(&all, &expect) { "lost-append-after-recovery" } else { "wrong-after-append" };
			return Some((
				format!("{what}:{dk}:{}", if matches!(end, VWalEnd::Corruption { .. }) { "after-repair" } else { "no-repair" }),
				format!("after appending 2 records: read {} records ending {last_end:?}, expected {} ({} kept + 2 new)", all.len(), expect.len(), kept),
			));
		}
		None
	});
	match r {
		Ok(x) => x,
		Err(p) => Some((format!("panic:{dk}:{}", crate::props::norm_msg(&p)), p)),
	}
}

pub fn cases(tier: Tier) -> Vec<Case> {
	let mut lens: Vec<usize> = vec![1, 100];
	for r in 0..=8 {
		lens.push(BLOCK - HDR - r); // leaves exactly r bytes before the block boundary
	}
	lens.push(BLOCK - HDR + 1);
	lens.push(65535 + 13);
	let mut out = vec![];
	let maxn = if tier == Tier::Quick { 2 } else { 3 };
	fn rec(lens: &[usize], n: usize, cur: &mut Vec<usize>, out: &mut Vec<Vec<usize>>) {
		if !cur.is_empty() {
			out.push(cur.clone());
		}
		if cur.len() == n {
			return;
		}
		for l in lens {
			cur.push(*l);
			rec(lens, n, cur, out);
			cur.pop();
		}
	}
	let mut seqs = vec![];
	rec(&lens, maxn, &mut vec![], &mut seqs);
	seqs.sort_by_key(|s| (s.len(), s.iter().sum::<usize>()));
	for s in seqs {
		for lz4 in [false, true] {
			for split in 0..s.len() {
				// split = 0 means one session
				out.push(Case {
					lens: s.clone(),
					lz4,
					split,
				});
			}
		}
	}
	out
}

struct CaseOut {
	evaluations: u64,
	positions: u64,
	failures: Vec<(String, String, J)>,
	detected: u64,
}

fn run_case(c: &Case, full_limit: usize, budget: &Budget) -> Result<CaseOut, String> {
	let work = fresh_dir("wal");
	let wdir = work.join("pristine");
	std::fs::create_dir_all(&wdir).map_err(|e| format!("{e}"))?;
	let recs = write_case(&wdir, c)?;
	let seg = seg_path(&wdir);
	let pristine = std::fs::read(&seg).map_err(|e| format!("{e}"))?;
	let mut out = CaseOut {
		evaluations: 0,
		positions: 0,
		failures: vec![],
		detected: 0,
	};
	// pristine read-back
	let (got, end) = verif_wal_read_segment_offsets(&seg, 0).map_err(|e| format!("{e}"))?;
	let got_recs: Vec<Vec<u8>> = got.iter().map(|g| g.0.clone()).collect();
	out.evaluations += 1;
	if got_recs != recs || end != VWalEnd::Eof {
		out.failures.push((
			"pristine-readback".into(),
			format!("[{}] read back {} of {} records, end={end:?}", c.name(), got_recs.len(), recs.len()),
			json!({"engine": "c12", "case": c.to_json(), "damage": J::Null}),
		));
		let _ = std::fs::remove_dir_all(&work);
		return Ok(out);
	}
	let ends: Vec<u64> = got.iter().map(|g| g.1).collect();
	let positions = damage_positions(&pristine, full_limit);
	out.positions = positions.len() as u64;
	let mut seen: BTreeSet<String> = BTreeSet::new();
	for p in positions {
		if budget.exhausted() {
			break;
		}
		let mut ds = vec![Damage::Truncate(p), Damage::Xor(p, 0xff)];
		for bit in 0..8 {
			ds.push(Damage::Xor(p, 1 << bit));
		}
		for d in ds {
			out.evaluations += 1;
			if let Some((class, text)) = judge(&work, c, &recs, &ends, &pristine, &d) {
				let first = seen.insert(class.clone());
				out.failures.push((
					class,
					if first { format!("[{}] {} (file {} bytes, record ends {:?}) => {}", c.name(), d.short(), pristine.len(), ends, text) } else { String::new() },
					if first { json!({"engine": "c12", "case": c.to_json(), "damage": d.to_json()}) } else { J::Null },
				));
			} else {
				out.detected += 1;
			}
		}
	}
	let _ = std::fs::remove_dir_all(&work);
	Ok(out)
}


// ---------------------------------------------------------------------------
// Store level: damaged WAL of a small database, both recovery modes
// ---------------------------------------------------------------------------

struct StoreBase {
	dir: PathBuf,
	wal_file: PathBuf,
	pristine: Vec<u8>,
	ends: Vec<u64>,
	n: usize,
}

fn build_store_base(n: usize) -> Result<StoreBase, String> {
	use crate::model::Write;
	use crate::world::{OptSet, World};
	let opt = OptSet::base("L2");
	let mut w = World::new(opt, &[])?;
	w.own_dir = false;
	for i in 0..n {
		w.commit(&[Write::set(format!("k{i:02}").as_bytes(), format!("v{i:02}").as_bytes())], surrealkv::Durability::Eventual)?.map_err(|e| e)?;
	}
	w.close()?;
	let dir = w.dir.clone();
	let wal_file = dir.join("wal").join(format!("{:020}.wal", 0));
	let pristine = std::fs::read(&wal_file).map_err(|e| format!("{e}"))?;
	let (got, end) = verif_wal_read_segment_offsets(&wal_file, 0).map_err(|e| format!("{e}"))?;
	if got.len() != n || end != VWalEnd::Eof {
		return Err(format!("store base WAL holds {} records (expected {n}), end {end:?}", got.len()));
	}
	Ok(StoreBase {
		dir,
		wal_file,
		pristine,
		ends: got.iter().map(|g| g.1).collect(),
		n,
	})
}

fn store_judge(base: &StoreBase, d: &Damage, work: &Path) -> Option<(String, String)> {
	use crate::model::Write;
	use crate::world::{OptSet, World};
	let dk = match d {
		Damage::Truncate(_) => "truncate",
		Damage::Xor(..) => "flip",
	};
	let n_before = base.ends.iter().filter(|e| (**e as usize) <= d.pos()).count();
	let prep = |dst: &Path| -> Result<(), String> {
		let _ = std::fs::remove_dir_all(dst);
		crate::util::copy_dir(&base.dir, dst).map_err(|e| format!("{e}"))?;
		let wf = dst.join("wal").join(base.wal_file.file_name().unwrap());
		std::fs::write(&wf, d.apply(&base.pristine)).map_err(|e| format!("{e}"))
	};
	let keys_of = |c: &crate::world::Pairs| -> Vec<String> { c.iter().map(|(k, _)| String::from_utf8_lossy(k).to_string()).collect() };
	let r = crate::util::guarded(|| -> Option<(String, String)> {
		// what does the file-level reader say about this damage?
		let probe = work.join("probe");
		if let Err(e) = prep(&probe) {
			return Some(("machinery".into(), e));
		}
		let wf = probe.join("wal").join(base.wal_file.file_name().unwrap());
		let detected = matches!(verif_wal_read_segment(&wf, 0), Ok((_, VWalEnd::Corruption { .. })));
		// --- tolerant mode ---
		let tdir = work.join("tolerant");
		if let Err(e) = prep(&tdir) {
			return Some(("machinery".into(), e));
		}
		let mut w = World::attach(OptSet::base("L2"), &tdir, &[]);
		if let Err(e) = w.open() {
			return Some((format!("store-open-fails:{dk}"), format!("tolerant open: {e}")));
		}
		let c1 = match w.dump() {
			Ok(c) => c,
			Err(e) => return Some((format!("store-read-error:{dk}"), e)),
		};
		let exp_prefix = |m: usize| -> Vec<String> { (0..m).map(|i| format!("k{i:02}")).collect() };
		let m = c1.len();
		if keys_of(&c1) != exp_prefix(m) || m > base.n {
			return Some((format!("store-not-a-prefix:{dk}"), format!("recovered keys {:?}", keys_of(&c1))));
		}
		if m < n_before {
			return Some((format!("store-lost-valid-record:{dk}"), format!("recovered {m} commits, {n_before} records lie wholly before the damage")));
		}
		// two more commits, clean close, reopen
		for (k, v) in [("new1", "x1"), ("new2", "x2")] {
			match w.commit(&[Write::set(k.as_bytes(), v.as_bytes())], surrealkv::Durability::Immediate) {
				Ok(Ok(())) => {}
				other => return Some((format!("store-commit-after-recovery-fails:{dk}"), format!("{other:?}"))),
			}
		}
		if let Err(e) = w.close() {
			return Some((format!("store-close-fails:{dk}"), e));
		}
		if let Err(e) = w.open() {
			return Some((format!("store-reopen-fails:{dk}"), format!("open after recovery+commits+close: {e}")));
		}
		let c2 = match w.dump() {
			Ok(c) => c,
			Err(e) => return Some((format!("store-read-error:{dk}"), e)),
		};
		let mut exp = exp_prefix(m);
		exp.push("new1".into());
		exp.push("new2".into());
		if keys_of(&c2) != exp {
			let class = if detected { "after-repair" } else { "no-repair" };
			return Some((format!("store-lost-commit-after-recovery:{dk}:{class}"), format!("after recovery ({m} commits), 2 Immediate commits, clean close, open: keys {:?}", keys_of(&c2))));
		}
		w.abandon();
		// --- absolute consistency ---
		let adir = work.join("absolute");
		if let Err(e) = prep(&adir) {
			return Some(("machinery".into(), e));
		}
		let before = crate::util::dir_snapshot(&adir);
		let mut o = OptSet::base("L2-absolute");
		o.absolute_consistency = true;
		let mut w = World::attach(o, &adir, &[]);
		let r = w.open();
		if detected {
			if r.is_ok() {
				return Some((format!("absolute-mode-opened-damaged-log:{dk}"), "AbsoluteConsistency: build() succeeded on a log the reader reports as corrupt".into()));
			}
			w.abandon();
			let mut after = crate::util::dir_snapshot(&adir);
			let mut b = before.clone();
			after.remove("LOCK");
			b.remove("LOCK");
			if after != b {
				let changed: Vec<&String> = after.keys().filter(|k| after.get(*k) != b.get(*k)).chain(b.keys().filter(|k| !after.contains_key(*k))).collect();
				return Some((format!("absolute-mode-touched-files:{dk}"), format!("files changed by a refused open: {changed:?}")));
			}
		} else if let Err(e) = r {
			// undamaged (or harmlessly damaged) log must open
			return Some((format!("absolute-mode-refused-clean-log:{dk}"), format!("{e}")));
		}
		None
	});
	match r {
		Ok(x) => x,
		Err(p) => Some((format!("store-panic:{dk}:{}", crate::props::norm_msg(&p)), p)),
	}
}

pub fn check(tier: Tier) -> i32 {
	let mut report = Report::new("C12", tier, "fault_enumeration");
	let budget = Budget::new(if tier == Tier::Quick { 50.0 } else { 1100.0 });
	let full_limit = if tier == Tier::Quick { 400 } else { 4096 };
	let cs = cases(tier);
	let results: Mutex<Vec<(usize, Result<CaseOut, String>)>> = Mutex::new(vec![]);
	let skipped = std::sync::atomic::AtomicU64::new(0);
	cs.par_iter().enumerate().for_each(|(i, c)| {
		if budget.exhausted() {
			skipped.fetch_add(1, std::sync::atomic::Ordering::Relaxed);
			return;
		}
		let r = crate::util::guarded(|| run_case(c, full_limit, &budget)).unwrap_or_else(|p| Err(format!("panic in case driver: {p}")));
		results.lock().unwrap().push((i, r));
	});
	let mut results = results.into_inner().unwrap();
	results.sort_by_key(|r| r.0);
	let mut evaluations = 0u64;
	let mut positions = 0u64;
	let mut detected = 0u64;
	let mut per_class: BTreeMap<String, u64> = BTreeMap::new();
	let mut first: BTreeMap<String, (String, J)> = BTreeMap::new();
	for (i, r) in results {
		match r {
			Err(e) => {
				eprintln!("machinery: case {} failed: {e}", cs[i].name());
				return 2;
			}
			Ok(o) => {
				evaluations += o.evaluations;
				positions += o.positions;
				detected += o.detected;
				for (class, text, replay) in o.failures {
					*per_class.entry(class.clone()).or_default() += 1;
					if !text.is_empty() {
						first.entry(class).or_insert((text, replay));
					}
				}
			}
		}
	}
	// store-level part
	let mut store_evals = 0u64;
	{
		let ncommits = if tier == Tier::Quick { 8 } else { 20 };
		let base = match build_store_base(ncommits) {
			Ok(b) => b,
			Err(e) => {
				eprintln!("machinery: store base: {e}");
				return 2;
			}
		};
		let mut damages = vec![];
		for p in 0..base.pristine.len() {
			damages.push(Damage::Truncate(p));
			damages.push(Damage::Xor(p, 0xff));
			if tier == Tier::Thorough {
				for bit in 0..8 {
					damages.push(Damage::Xor(p, 1 << bit));
				}
			} else {
				damages.push(Damage::Xor(p, 0x01));
			}
		}
		let found: Mutex<Vec<(usize, String, String)>> = Mutex::new(vec![]);
		let done = std::sync::atomic::AtomicU64::new(0);
		damages.par_iter().enumerate().for_each(|(i, d)| {
			if budget.exhausted() {
				return;
			}
			let work = fresh_dir("walstore");
			if let Some((c, t)) = store_judge(&base, d, &work) {
				found.lock().unwrap().push((i, c, t));
			}
			done.fetch_add(1, std::sync::atomic::Ordering::Relaxed);
			let _ = std::fs::remove_dir_all(&work);
		});
		store_evals = done.load(std::sync::atomic::Ordering::Relaxed);
		let mut found = found.into_inner().unwrap();
		found.sort_by_key(|f| f.0);
		for (i, c, t) in found {
			if c == "machinery" {
				eprintln!("machinery: {t}");
				return 2;
			}
			*per_class.entry(c.clone()).or_default() += 1;
			first.entry(c).or_insert((format!("[store, {} commits in the WAL ({} bytes)] {} => {}", base.n, base.pristine.len(), damages[i].short(), t), json!({"engine": "c12-store", "commits": base.n, "damage": damages[i].to_json()})));
		}
		report.set("store_level", json!({"commits": base.n, "wal_bytes": base.pristine.len(), "damages": damages.len(), "judged": store_evals}));
		if (store_evals as usize) < damages.len() {
			report.set("store_level_cap_hit", json!(true));
		}
		let _ = std::fs::remove_dir_all(&base.dir);
	}
	evaluations += store_evals;
	for (class, n) in &per_class {
		let (text, replay) = first.get(class).cloned().unwrap_or_default();
		report.violations.push(Violation {
			class: class.clone(),
			what: text,
			replay,
		});
		for _ in 1..*n {
			report.violations.push(Violation {
				class: class.clone(),
				what: String::new(),
				replay: J::Null,
			});
		}
	}
	let sk = skipped.load(std::sync::atomic::Ordering::Relaxed);
	report.set("evaluations", json!(evaluations));
	report.set("distinct_nontrivial", json!(detected));
	report.set("rule", json!("cases = record-length sequences over {1, 100, 32761-r (r=0..8), 32762, 65548} x LZ4 on/off x session split; damage = at every chosen position: truncation, XOR 0xff and each of the 8 single-bit flips; positions = every byte for files up to the size bound, else every byte of each physical record header, the first/last 16 payload bytes of each fragment, 16 bytes around each block boundary and the last 32 bytes; non-trivial = damaged files that were read, (repaired,) appended to and re-read with the oracle holding"));
	report.set("samples", json!([cs[0].name(), cs[cs.len() / 2].name(), "xor@32767^0x01 on lens=[32760, 100]"]));
	report.set("cases", json!(cs.len()));
	report.set("cases_skipped_by_time_cap", json!(sk));
	report.set("damage_positions", json!(positions));
	report.set("exhaustive", json!(sk == 0 && !budget.exhausted()));
	report.assume("store-level part: one database whose WAL holds n small commits; every byte position: truncation, XOR 0xff and bit flips (quick: bit 0 only); tolerant mode: open, scan, 2 Immediate commits, clean close, open; absolute-consistency mode: open must fail iff the file-level reader reports corruption and must leave every file untouched");
	report.set("failures_per_class", json!(per_class));
	report.assume("file-level part: real Wal writer / Reader / repair_corrupted_wal_segment through the verif facade; the store-level recovery path is judged by the crash engine (C02/C03)");
	report.assume("record contents are fixed deterministic patterns; a damage that happens to keep the CRC valid would be reported (none possible for single-bit/byte damage under CRC32)");
	report.finish()
}

pub fn replay(r: &J) -> i32 {
	if r["engine"] == "c12-store" {
		let base = match build_store_base(r["commits"].as_u64().unwrap() as usize) {
			Ok(b) => b,
			Err(e) => {
				eprintln!("machinery: {e}");
				return 2;
			}
		};
		let d = Damage::from_json(&r["damage"]);
		println!("replaying C12 store-level {}", d.short());
		let w1 = fresh_dir("walstore");
		let a = store_judge(&base, &d, &w1);
		let b = store_judge(&base, &d, &w1);
		let _ = std::fs::remove_dir_all(&w1);
		let _ = std::fs::remove_dir_all(&base.dir);
		if a.as_ref().map(|x| &x.0) != b.as_ref().map(|x| &x.0) {
			eprintln!("machinery: replay not deterministic");
			return 2;
		}
		return match a {
			Some((c, t)) => {
				println!("VIOLATION property=C12 replay=<this file>\n  class={c} {t}");
				1
			}
			None => {
				println!("replay passed: no violation");
				0
			}
		};
	}
	let c = Case::from_json(&r["case"]);
	println!("replaying C12 {} damage {}", c.name(), r["damage"]);
	let run = || -> Result<Option<(String, String)>, String> {
		let work = fresh_dir("walr");
		let wdir = work.join("pristine");
		std::fs::create_dir_all(&wdir).map_err(|e| format!("{e}"))?;
		let recs = write_case(&wdir, &c)?;
		let seg = seg_path(&wdir);
		let pristine = std::fs::read(&seg).map_err(|e| format!("{e}"))?;
		let (got, end) = verif_wal_read_segment_offsets(&seg, 0).map_err(|e| format!("{e}"))?;
		if r["damage"].is_null() {
			let ok = got.iter().map(|g| g.0.clone()).collect::<Vec<_>>() == recs && end == VWalEnd::Eof;
			return Ok(if ok { None } else { Some(("pristine-readback".into(), format!("{} of {} records, end {end:?}", got.len(), recs.len()))) });
		}
		let ends: Vec<u64> = got.iter().map(|g| g.1).collect();
		let d = Damage::from_json(&r["damage"]);
		let out = judge(&work, &c, &recs, &ends, &pristine, &d);
		let _ = std::fs::remove_dir_all(&work);
		Ok(out)
	};
	let a = run();
	let b = run();
	if a != b {
		eprintln!("machinery: replay not deterministic");
		return 2;
	}
	match a {
		Err(e) => {
			eprintln!("machinery: {e}");
			2
		}
		Ok(Some((c, t))) => {
			println!("VIOLATION property=C12 replay=<this file>\n  class={c} {t}");
			1
		}
		Ok(None) => {
			println!("replay passed: no violation");
			0
		}
	}
}
