//! C17 part 3 — the wake-up protocol of the REAL background task manager under real parallelism.
//!
//! The sequential part runs both background tasks on one thread, so a flush can never end inside
//! a compaction round. Here the store runs on a multi-thread runtime (2 workers); a one-shot gate
//! (hook `gate_point`) holds the level-compaction task at one of three places of its working
//! section (marked running / round done / writers signalled). While it is held, the harness
//! commits rotating values one at a time and waits for the flush task to finish each flush — so
//! exactly `during` flushes end inside that round — then opens the gate. Afterwards three more
//! commits and close() must return. Enumerated: gate place × rounds before the held one × flushes
//! inside the held round × level count. The order of the decisive events is fixed by the gate; real
//! time only bounds the waits. A wait that runs out is a violation only if both tasks are idle,
//! no gate holds anybody and the stall condition still stands (nothing is left that could wake
//! the writer); otherwise the case is counted as inconclusive and never reported.

use std::time::{Duration, Instant};

use serde_json::{json, Value as J};
use surrealkv::verif::{close_gate, gate_state, open_gate, reset_gates, ManualClock};
use surrealkv::{Tree, TreeBuilder};

use crate::util::{fresh_dir, guarded};
use crate::world::OptSet;

pub const GATES: [&str; 3] = ["task:level-running", "task:level-compacted", "task:level-signalled"];
const L0_STALL: usize = 4;
const MEM_STALL: usize = 3;

#[derive(Clone, Debug)]
pub struct Case {
	pub gate: usize,
	pub levels: u8,
	pub pre: usize,
	pub during: usize,
}

pub enum Outcome {
	/// (level task was held, flushes that ended inside the held round)
	Held(bool, usize),
	Violation(String, String),
	Inconclusive(String),
}

fn opt(levels: u8) -> OptSet {
	let mut o = OptSet::base(if levels == 2 { "L2-memtable4k-par" } else { "L3-memtable4k-par" }).levels(levels).memtable_size(4096);
	o.memtable_stall = MEM_STALL;
	o.l0_stall = L0_STALL;
	o.level0_max_files = 2;
	o
}

fn any_held() -> bool {
	GATES.iter().any(|g| gate_state(g).0 > 0)
}

/// Nothing can wake a stalled writer any more: both tasks idle, nobody at a gate, stall stands —
/// observed continuously for a while.
fn dead(tree: &Tree) -> bool {
	let end = Instant::now() + Duration::from_millis(1500);
	while Instant::now() < end {
		let (imm, l0) = tree.verif_stall_counts();
		let stalled = imm >= MEM_STALL || l0 >= L0_STALL;
		if tree.verif_tasks_running() != (false, false) || any_held() || !stalled {
			return false;
		}
		std::thread::sleep(Duration::from_millis(20));
	}
	true
}

fn commit(rt: &tokio::runtime::Runtime, tree: &Tree, clock: &ManualClock, n: usize, big: bool, wait: Duration) -> Result<Option<Result<(), String>>, String> {
	clock.advance(10);
	let key = format!("k{n:03}").into_bytes();
	let val = if big { vec![b'v'; 3000] } else { format!("v{n}").into_bytes() };
	rt.block_on(async {
		let mut t = tree.begin().map_err(|e| format!("begin: {e}"))?;
		t.set(&key, &val).map_err(|e| format!("set: {e}"))?;
		match tokio::time::timeout(wait, t.commit()).await {
			Ok(r) => Ok(Some(r.map_err(|e| format!("{e}")))),
			Err(_) => Ok(None),
		}
	})
}

/// Wait until the flush task has nothing queued and is outside its working section.
fn flush_quiet(tree: &Tree, wait: Duration) -> bool {
	let end = Instant::now() + wait;
	loop {
		if tree.verif_stall_counts().0 == 0 && !tree.verif_tasks_running().0 {
			return true;
		}
		if Instant::now() > end {
			return false;
		}
		std::thread::sleep(Duration::from_millis(1));
	}
}

/// Wait until the level task is outside its working section too (the window between the flush
/// task's notification and the level task marking itself running is covered by a settle time; a
/// misjudgement only changes which state the case reaches, never its verdict).
fn level_quiet(tree: &Tree, wait: Duration) -> bool {
	let end = Instant::now() + wait;
	let mut idle_since: Option<Instant> = None;
	loop {
		if tree.verif_tasks_running() == (false, false) && !any_held() {
			let s = *idle_since.get_or_insert_with(Instant::now);
			if s.elapsed() > Duration::from_millis(25) {
				return true;
			}
		} else {
			idle_since = None;
		}
		if Instant::now() > end {
			return false;
		}
		std::thread::sleep(Duration::from_millis(1));
	}
}

pub fn run_case(c: &Case) -> Result<Outcome, String> {
	let long = Duration::from_secs(30);
	let gate = GATES[c.gate];
	reset_gates();
	let dir = fresh_dir("c17par");
	let clock = ManualClock::new(1_000);
	let rt = tokio::runtime::Builder::new_multi_thread().worker_threads(2).enable_time().build().map_err(|e| format!("runtime: {e}"))?;
	let tree = {
		let _g = rt.enter();
		TreeBuilder::with_options(opt(c.levels).build_options(&dir, &clock)).build().map_err(|e| format!("open: {e}"))?
	};
	let mut n = 0usize;
	let mut out: Option<Outcome> = None;
	let ctx = |tree: &Tree| {
		let (imm, l0) = tree.verif_stall_counts();
		format!("{imm} immutable memtables (limit {MEM_STALL}), {l0} level-0 tables (limit {L0_STALL}), tasks running {:?}", tree.verif_tasks_running())
	};
	let stalled = |tree: &Tree| {
		let (imm, l0) = tree.verif_stall_counts();
		imm >= MEM_STALL || l0 >= L0_STALL
	};
	// phase A: rounds before the held one (gate open)
	'run: {
		let mut cycles = 0;
		while cycles < c.pre {
			n += 1;
			if n > 40 {
				out = Some(Outcome::Inconclusive("phase A did not reach the wanted number of rounds".into()));
				break 'run;
			}
			match commit(&rt, &tree, &clock, n, true, long)? {
				Some(Ok(())) => {}
				Some(Err(e)) => {
					out = Some(Outcome::Violation(format!("commit-error:{}", crate::props::norm_msg(&e).chars().take(50).collect::<String>()), e));
					break 'run;
				}
				None => {
					out = Some(if dead(&tree) { Outcome::Violation("commit-never-returns".into(), format!("commit {n} before the held round is still pending after 30 s: {}", ctx(&tree))) } else { Outcome::Inconclusive("phase A commit timed out".into()) });
					break 'run;
				}
			}
			if !flush_quiet(&tree, long) || !level_quiet(&tree, long) {
				out = Some(Outcome::Inconclusive("background tasks did not go quiet in phase A".into()));
				break 'run;
			}
			// every 3000-byte commit but the first rotates the 4 KiB memtable: one flush, one level round
			if n >= 2 {
				cycles += 1;
			}
		}
		// arm the gate, then commit until the level task is held at it
		close_gate(gate);
		let mut held = false;
		for _ in 0..6 {
			if stalled(&tree) {
				break;
			}
			n += 1;
			match commit(&rt, &tree, &clock, n, true, long)? {
				Some(Ok(())) => {}
				Some(Err(e)) => {
					out = Some(Outcome::Violation(format!("commit-error:{}", crate::props::norm_msg(&e).chars().take(50).collect::<String>()), e));
					break 'run;
				}
				None => {
					out = Some(Outcome::Inconclusive("arming commit timed out".into()));
					break 'run;
				}
			}
			if !flush_quiet(&tree, long) {
				out = Some(Outcome::Inconclusive("flush task did not go quiet while arming".into()));
				break 'run;
			}
			// the flush task has notified the level task: wait for it to reach the gate
			let end = Instant::now() + Duration::from_millis(300);
			while Instant::now() < end && gate_state(gate).0 == 0 {
				std::thread::sleep(Duration::from_millis(1));
			}
			if gate_state(gate).0 > 0 {
				held = true;
				break;
			}
		}
		// phase B: flushes that end inside the held round
		let mut during = 0;
		if held {
			while during < c.during && !stalled(&tree) {
				n += 1;
				let l0_before = tree.verif_stall_counts().1;
				match commit(&rt, &tree, &clock, n, true, long)? {
					Some(Ok(())) => {}
					Some(Err(e)) => {
						out = Some(Outcome::Violation(format!("commit-error:{}", crate::props::norm_msg(&e).chars().take(50).collect::<String>()), e));
						break 'run;
					}
					None => {
						out = Some(Outcome::Inconclusive("commit inside the held round timed out although the stall limits were not reached".into()));
						break 'run;
					}
				}
				if !flush_quiet(&tree, long) {
					out = Some(Outcome::Inconclusive("flush task did not go quiet inside the held round".into()));
					break 'run;
				}
				if tree.verif_stall_counts().1 > l0_before {
					during += 1;
				}
			}
		}
		let at_release = ctx(&tree);
		open_gate(gate);
		// phase C: every later commit must return
		for (i, big) in [false, true, true, false].iter().enumerate() {
			n += 1;
			match commit(&rt, &tree, &clock, n, *big, long)? {
				Some(Ok(())) => {}
				Some(Err(e)) => {
					out = Some(Outcome::Violation(format!("commit-error:{}", crate::props::norm_msg(&e).chars().take(50).collect::<String>()), e));
					break 'run;
				}
				None => {
					out = Some(if dead(&tree) {
						Outcome::Violation(
							"commit-never-returns".into(),
							format!("commit {} after the held round is still pending after 30 s and nothing is left that could wake it: now {}; {during} flushes ended while the level task was held at {gate} (state when released: {at_release})", i + 1, ctx(&tree)),
						)
					} else {
						Outcome::Inconclusive("commit after the release timed out but the background tasks were not idle".into())
					});
					break 'run;
				}
			}
		}
		out = Some(Outcome::Held(held, during));
	}
	reset_gates();
	let hung = matches!(out, Some(Outcome::Violation(..)) | Some(Outcome::Inconclusive(_)));
	if hung {
		// a stuck store cannot be closed in bounded time: cancel everything
		let _g = rt.enter();
		drop(tree);
		drop(_g);
		rt.shutdown_background();
	} else {
		let r = rt.block_on(async { tokio::time::timeout(long, tree.close()).await });
		match r {
			Ok(Ok(())) => {}
			Ok(Err(e)) => out = Some(Outcome::Violation(format!("close-error:{}", crate::props::norm_msg(&format!("{e}")).chars().take(50).collect::<String>()), format!("{e}"))),
			Err(_) => {
				out = Some(if tree.verif_tasks_running() == (false, false) && !any_held() {
					Outcome::Violation("close-never-returns".into(), format!("close() is still pending after 30 s with both background tasks idle: {}", ctx(&tree)))
				} else {
					Outcome::Inconclusive("close timed out".into())
				});
			}
		}
		{
			let _g = rt.enter();
			drop(tree);
		}
		rt.shutdown_background();
	}
	let _ = std::fs::remove_dir_all(&dir);
	Ok(out.unwrap())
}

pub fn cases(tier: crate::util::Tier) -> Vec<Case> {
	let quick = tier == crate::util::Tier::Quick;
	let mut v = vec![];
	for levels in [2u8, 3] {
		for pre in 0..=(if quick { 2 } else { 4 }) {
			for gate in 0..GATES.len() {
				for during in 0..=L0_STALL {
					v.push(Case { gate, levels, pre, during });
				}
			}
		}
	}
	v
}

pub fn case_json(c: &Case) -> J {
	json!({"engine": "c17-par", "gate": c.gate, "levels": c.levels, "pre": c.pre, "during": c.during})
}

pub fn case_from(r: &J) -> Case {
	Case { gate: r["gate"].as_u64().unwrap_or(0) as usize % GATES.len(), levels: r["levels"].as_u64().unwrap_or(2) as u8, pre: r["pre"].as_u64().unwrap_or(0) as usize, during: r["during"].as_u64().unwrap_or(0) as usize }
}

pub fn run_guarded(c: &Case) -> Result<Outcome, String> {
	match guarded(|| run_case(c)) {
		Ok(r) => r,
		Err(p) => {
			reset_gates();
			Ok(Outcome::Violation(format!("panic:{}", crate::props::norm_msg(&p)), p))
		}
	}
}

pub fn replay(r: &J) -> i32 {
	surrealkv::verif::set_forced_height(1);
	let c = case_from(r);
	println!("replaying C17 parallel case {c:?}");
	match run_guarded(&c) {
		Ok(Outcome::Violation(class, text)) => {
			println!("VIOLATION property=C17 replay=<this file>\n  class=parallel:{class} {text}");
			1
		}
		Ok(Outcome::Held(h, d)) => {
			println!("replay passed: no violation (level task held: {h}, flushes inside the held round: {d})");
			0
		}
		Ok(Outcome::Inconclusive(s)) => {
			eprintln!("machinery: inconclusive: {s}");
			2
		}
		Err(e) => {
			eprintln!("machinery: {e}");
			2
		}
	}
}
