//! Property checks. Each module exposes `check(tier) -> exit code` and `replay(file) -> exit code`.

use std::collections::{BTreeMap, HashSet};
use std::sync::Mutex;

use rayon::prelude::*;
use serde_json::{json, Value as J};

use crate::util::{fnv64, Budget, Report, Tier, Violation};
use crate::world::{ops_short, run_world, Op, OptSet, WorldFailure};

pub mod c01;
pub mod c04;
pub mod c06;
pub mod c07;
pub mod c08;
pub mod c09;
pub mod c10;
pub mod c11;
pub mod c12;
pub mod c13;
pub mod c14;
pub mod c15;
pub mod c15b;
pub mod c16;
pub mod c17;
pub mod c17par;
pub mod c18;
pub mod c19;
pub mod crash;
pub mod sched;

pub fn check(prop: &str, tier: Tier) -> i32 {
	match prop {
		"C01" => c01::check(tier),
		"C02" => crash::check("C02", tier),
		"C03" => crash::check("C03", tier),
		"C04" => c04::check(tier),
		"C05" => sched::check("C05", tier),
		"C17" => c17::check(tier),
		"C06" => c06::check(tier),
		"C07" => c07::check(tier),
		"C08" => c08::check(tier),
		"C09" => c09::check(tier),
		"C10" => c10::check(tier),
		"C11" => c11::check(tier),
		"C12" => c12::check(tier),
		"C13" => c13::check(tier),
		"C14" => c14::check(tier),
		"C15" => c15::check(tier),
		"C16" => c16::check(tier),
		"C18" => c18::check(tier),
		"C19" => c19::check(tier),
		_ => {
			eprintln!("machinery: unknown property {prop}");
			2
		}
	}
}

pub fn replay(prop: &str, file: &str) -> i32 {
	let txt = match std::fs::read_to_string(file) {
		Ok(t) => t,
		Err(e) => {
			eprintln!("machinery: cannot read {file}: {e}");
			return 2;
		}
	};
	let j: J = match serde_json::from_str(&txt) {
		Ok(j) => j,
		Err(e) => {
			eprintln!("machinery: {file} does not parse: {e}");
			return 2;
		}
	};
	let r = j.get("replay").cloned().unwrap_or(j.clone());
	match prop {
		"C06" | "C01" | "C07" | "C11" if r["engine"] == "world" => replay_world(prop, &r),
		"C02" | "C03" | "C07" | "C07c" | "C11" if r["engine"] == "crash" => crash::replay(if prop == "C07c" { "C07" } else { prop }, &r),
		"C05" | "C17" | "C04" | "C01" | "C02" | "C11" | "C06" | "C14" | "C04s" | "C01s" | "C02s" if r["engine"] == "schedx" => sched::replay(prop.trim_end_matches('s'), &r),
		"C07" if r["engine"] == "c07-shrink" || r["engine"] == "c07-oversize" => c07::replay(&r),
		"C17" if r["engine"] == "c17-seq" => c17::replay(&r),
		"C17" if r["engine"] == "c17-par" => c17par::replay(&r),
		"C04" => c04::replay(&r),
		"C08" => c08::replay(&r),
		"C09" => c09::replay(&r),
		"C10" => c10::replay(&r),
		"C11" => c11::replay(&r),
		"C12" => c12::replay(&r),
		"C13" => c13::replay(&r),
		"C14" => c14::replay(&r),
		"C15" => c15::replay(&r),
		"C16" => c16::replay(&r),
		"C18" => c18::replay(&r),
		"C19" => c19::replay(&r),
		_ => {
			eprintln!("machinery: no replay for {prop}");
			2
		}
	}
}

pub fn worker(kind: &str, args: &[String]) -> i32 {
	match kind {
		"trace" => crate::crashx::worker_trace(&args[0]),
		"c16" => c16::worker(args),
		"hold" => c19::worker_hold(&args[0]),
		_ => 2,
	}
}

// ---------------------------------------------------------------------------
// Shared: bounded-exhaustive world sequences
// ---------------------------------------------------------------------------

pub fn world_replay_json(opt: &OptSet, ops: &[Op], probe: &[&[u8]]) -> J {
	json!({
		"engine": "world",
		"options": opt.to_json(),
		"probe_keys": probe.iter().map(|k| crate::util::hex(k)).collect::<Vec<_>>(),
		"ops": ops.iter().map(|o| o.to_json()).collect::<Vec<_>>(),
		"ops_short": ops_short(ops),
	})
}

pub fn replay_world(prop: &str, r: &J) -> i32 {
	let opt = OptSet::from_json(&r["options"]);
	let ops: Vec<Op> = r["ops"].as_array().unwrap().iter().map(Op::from_json).collect();
	let probe: Vec<Vec<u8>> = r["probe_keys"]
		.as_array()
		.map(|a| a.iter().map(|s| crate::util::unhex(s.as_str().unwrap())).collect())
		.unwrap_or_default();
	let probe_refs: Vec<&[u8]> = probe.iter().map(|k| k.as_slice()).collect();
	surrealkv::verif::set_forced_height(1);
	println!("replaying {} on option set {}: {}", prop, opt.name, ops_short(&ops));
	let a = run_world(&opt, &ops, &probe_refs);
	let b = run_world(&opt, &ops, &probe_refs);
	let fa = a.failure.as_ref().map(|f| format!("step {} {}: {}", f.step, f.kind, f.detail));
	let fb = b.failure.as_ref().map(|f| format!("step {} {}: {}", f.step, f.kind, f.detail));
	if fa != fb {
		eprintln!("machinery: replay is not deterministic:\n  run1: {fa:?}\n  run2: {fb:?}");
		return 2;
	}
	match fa {
		Some(f) => {
			println!("VIOLATION property={prop} replay=<this file>");
			println!("  {f}");
			1
		}
		None => {
			println!("replay passed: no violation");
			0
		}
	}
}

/// Normalise an error/panic message into a class fragment (digits and paths removed).
pub fn norm_msg(s: &str) -> String {
	let mut out = String::new();
	let mut last_hash = false;
	for c in s.chars() {
		if c.is_ascii_digit() {
			if !last_hash {
				out.push('#');
				last_hash = true;
			}
		} else {
			last_hash = false;
			out.push(c);
		}
	}
	let out = out.replace("/dev/shm/", "");
	out.chars().take(120).collect()
}

pub fn classify_world_failure(f: &WorldFailure) -> String {
	match f.kind.as_str() {
		"mismatch" => {
			let m = f.mismatch.as_ref().unwrap();
			let who = if m.who.starts_with("reader") { "reader" } else { "fresh" };
			let q = m.query.split('(').next().unwrap_or("");
			if m.kind == "error" {
				format!("read-error:{who}:{q}:{}", norm_msg(&m.got))
			} else {
				format!("mismatch:{who}:{q}:{}", m.kind)
			}
		}
		k => format!("{k}:{}", norm_msg(&f.detail)),
	}
}

#[derive(Default)]
pub struct SpaceStats {
	pub evaluations: u64,
	pub transitions: u64,
	pub states: HashSet<u64>,
	pub nontrivial: HashSet<u64>,
	pub failures: u64,
	pub per_class: BTreeMap<String, u64>,
}

/// Execute every operation list (in the given, simplest-first order) on `opt`; returns false
/// if the budget ran out before the lists were exhausted.
pub fn run_world_space(
	report: &mut Report,
	stats: &mut SpaceStats,
	opt: &OptSet,
	lists: &[Vec<Op>],
	probe: &[&[u8]],
	budget: &Budget,
	classify: &(dyn Fn(&WorldFailure, &[Op], &OptSet) -> String + Sync),
) -> bool {
	let chunk = 4096;
	let mut complete = true;
	for (ci, part) in lists.chunks(chunk).enumerate() {
		if budget.exhausted() {
			complete = false;
			report.set(
				"cap_hit",
				json!(format!(
					"time cap {:.0}s hit on option set {} after {} of {} sequences",
					budget.cap(),
					opt.name,
					ci * chunk,
					lists.len()
				)),
			);
			break;
		}
		let found: Mutex<Vec<(usize, String, WorldFailure)>> = Mutex::new(vec![]);
		let agg: Mutex<(u64, HashSet<u64>, HashSet<u64>)> = Mutex::new((0, HashSet::new(), HashSet::new()));
		part.par_iter().enumerate().for_each(|(i, ops)| {
			let run = run_world(opt, ops, probe);
			{
				let mut a = agg.lock().unwrap();
				a.0 += run.steps;
				for s in &run.shapes {
					a.1.insert(*s);
				}
				if run.effective_physical > 0 {
					a.2.insert(fnv64(ops_short(ops).as_bytes()));
				}
			}
			if let Some(f) = run.failure {
				let class = classify(&f, ops, opt);
				found.lock().unwrap().push((i, class, f));
			}
		});
		let a = agg.into_inner().unwrap();
		stats.evaluations += part.len() as u64;
		stats.transitions += a.0;
		stats.states.extend(a.1);
		stats.nontrivial.extend(a.2);
		let mut found = found.into_inner().unwrap();
		found.sort_by_key(|x| x.0);
		for (i, class, f) in found {
			stats.failures += 1;
			let n = stats.per_class.entry(class.clone()).or_default();
			*n += 1;
			// keep the first (simplest) example of each class, count the rest
			if *n == 1 {
				let ops = &part[i];
				// determinism re-check before reporting
				let again = run_world(opt, ops, probe);
				// (messages carry scratch-directory paths: compare them with digits normalised)
				let same = again.failure.as_ref().map(|g| (g.step, g.kind.clone(), norm_msg(&g.detail)))
					== Some((f.step, f.kind.clone(), norm_msg(&f.detail)));
				if !same {
					eprintln!(
						"machinery: non-deterministic failure on [{}] {}: first {:?}, second {:?}",
						opt.name,
						ops_short(ops),
						f,
						again.failure
					);
					std::process::exit(2);
				}
				report.violations.push(Violation {
					class,
					what: format!("[{}] {} => step {} {}: {}", opt.name, ops_short(ops), f.step, f.kind, f.detail),
					replay: world_replay_json(opt, ops, probe),
				});
			} else {
				report.violations.push(Violation {
					class,
					what: String::new(),
					replay: J::Null,
				});
			}
		}
	}
	complete
}
