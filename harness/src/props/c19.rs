//! C19 — one live instance per database directory.
//!
//! All sequences of up to N operations over {open by opener 1/2, close, drop (+ drain of the
//! runtime that runs the Drop-spawned close), start a child process that opens the directory,
//! kill the child}. Oracle: at most one opener holds the directory at any time; a refused open
//! returns an error and leaves every file (incl. the advisory LOCK file) byte-identical; after
//! close / drop / death of the owner the next open succeeds and sees the committed data.

use std::collections::BTreeMap;
use std::io::{BufRead, BufReader};
use std::path::{Path, PathBuf};
use std::process::{Child, Command, Stdio};
use std::sync::Mutex;

use rayon::prelude::*;
use serde_json::{json, Value as J};
use surrealkv::Durability;

use crate::model::Write;
use crate::util::{dir_snapshot, fresh_dir, Budget, Report, Tier, Violation};
use crate::world::{OptSet, World};

#[derive(Clone, Copy, Debug, PartialEq, Eq)]
pub enum Lop {
	Open(u8),
	Close(u8),
	Drop(u8),
	ChildOpen,
	ChildKill,
	/// opener `id` opens while the in-process owner commits, flushes and closes exactly at the
	/// moment the opener is about to take the directory lock
	RaceOpen(u8),
	/// a clone of opener `id`'s handle is dropped on a plain OS thread (no async runtime there)
	/// while the opener itself stays open: the directory must stay locked
	DropCloneElsewhere(u8),
	/// the opener's handle is dropped while a transaction begun from it is still alive; the
	/// transaction is dropped afterwards (the runtime is run until the lock is given back)
	DropWithLiveTxn(u8),
	/// close() is started (polled once) and abandoned, then close() is called again and awaited
	CloseTwice(u8),
	/// the owner takes a checkpoint and restores it while staying open (the restore rewrites
	/// most of the directory): the directory must stay locked
	CheckpointRestore(u8),
}

fn lop_str(o: &Lop) -> String {
	match o {
		Lop::Open(i) => format!("open{i}"),
		Lop::Close(i) => format!("close{i}"),
		Lop::Drop(i) => format!("drop{i}"),
		Lop::ChildOpen => "child-open".into(),
		Lop::ChildKill => "child-kill".into(),
		Lop::RaceOpen(i) => format!("open{i}-while-owner-closes"),
		Lop::DropCloneElsewhere(i) => format!("drop-clone-of-{i}-on-plain-thread"),
		Lop::DropWithLiveTxn(i) => format!("drop{i}-with-live-transaction"),
		Lop::CloseTwice(i) => format!("close{i}-abandoned-then-close{i}"),
		Lop::CheckpointRestore(i) => format!("checkpoint-and-restore{i}"),
	}
}

/// `vharness worker hold <dir>`: open the store, report, wait to be killed.
pub fn worker_hold(dir: &str) -> i32 {
	let mut w = World::attach(OptSet::base("L2"), Path::new(dir), &[]);
	match w.open() {
		Ok(()) => {
			println!("READY");
			use std::io::Write as _;
			let _ = std::io::stdout().flush();
			loop {
				std::thread::sleep(std::time::Duration::from_secs(3600));
			}
		}
		Err(e) => {
			println!("REFUSED {e}");
			0
		}
	}
}

/// Whether nobody holds the advisory lock on `<dir>/LOCK` (probe through a separate open file
/// description; the probe lock is released at once).
fn lock_is_free(dir: &Path) -> bool {
	use std::os::unix::io::AsRawFd;
	let Ok(f) = std::fs::File::open(dir.join("LOCK")) else {
		return true;
	};
	let fd = f.as_raw_fd();
	let got = unsafe { libc::flock(fd, libc::LOCK_EX | libc::LOCK_NB) } == 0;
	if got {
		unsafe { libc::flock(fd, libc::LOCK_UN) };
	}
	got
}

fn noop_waker() -> std::task::Waker {
	use std::task::{RawWaker, RawWakerVTable, Waker};
	fn no(_: *const ()) {}
	fn clone(_: *const ()) -> RawWaker {
		RawWaker::new(std::ptr::null(), &VT)
	}
	static VT: RawWakerVTable = RawWakerVTable::new(clone, no, no, no);
	unsafe { Waker::from_raw(RawWaker::new(std::ptr::null(), &VT)) }
}

struct ChildProc(Child);
impl Drop for ChildProc {
	fn drop(&mut self) {
		let _ = self.0.kill();
		let _ = self.0.wait();
	}
}

/// Returns Ok(Some(child)) if the child holds the store, Ok(None) if it was refused.
fn spawn_child(dir: &Path) -> Result<Option<ChildProc>, String> {
	let exe = std::env::current_exe().map_err(|e| format!("{e}"))?;
	let mut c = Command::new(exe).arg("worker").arg("hold").arg(dir).stdout(Stdio::piped()).stderr(Stdio::null()).spawn().map_err(|e| format!("spawn: {e}"))?;
	let out = c.stdout.take().unwrap();
	let mut line = String::new();
	BufReader::new(out).read_line(&mut line).map_err(|e| format!("{e}"))?;
	if line.starts_with("READY") {
		Ok(Some(ChildProc(c)))
	} else {
		let _ = c.wait();
		if line.starts_with("REFUSED") {
			Ok(None)
		} else {
			Err(format!("child said {line:?}"))
		}
	}
}

pub fn run_seq(ops: &[Lop]) -> Result<Option<(String, String)>, String> {
	let dir = fresh_dir("lock");
	let res = (|| -> Result<Option<(String, String)>, String> {
		let mut openers: BTreeMap<u8, World> = BTreeMap::new();
		let mut child: Option<ChildProc> = None;
		let mut owner: Option<String> = None; // model: who holds the directory
		let mut committed = false;
		for (i, op) in ops.iter().enumerate() {
			let ctx = |t: String| format!("step {i} {}: {t}", lop_str(op));
			match op {
				Lop::Open(id) => {
					let before = dir_snapshot(&dir);
					let mut w = World::attach(OptSet::base("L2"), &dir, &[]);
					let r = w.open();
					match (&owner, r) {
						(Some(o), Ok(())) => return Ok(Some(("second-instance-admitted".into(), ctx(format!("open succeeded while {o} holds the directory"))))),
						(Some(_), Err(_)) => {
							w.abandon();
							let after = dir_snapshot(&dir);
							if after != before {
								let changed: Vec<String> = after.keys().chain(before.keys()).filter(|k| after.get(*k) != before.get(*k)).cloned().collect::<std::collections::BTreeSet<_>>().into_iter().collect();
								let only_lock = changed.iter().all(|c| c == "LOCK");
								return Ok(Some((if only_lock { "refused-open-rewrote-LOCK".to_string() } else { "refused-open-touched-files".to_string() }, ctx(format!("refused open changed {changed:?} (LOCK before {:?}, after {:?})", before.get("LOCK").map(|b| String::from_utf8_lossy(b).to_string()), after.get("LOCK").map(|b| String::from_utf8_lossy(b).to_string()))))));
							}
						}
						(None, Err(e)) => return Ok(Some((format!("free-directory-refused:{}", crate::props::norm_msg(&e).chars().take(50).collect::<String>()), ctx(format!("nobody holds the directory but open failed: {e}"))))),
						(None, Ok(())) => {
							// data of earlier sessions must be there
							if committed {
								match w.dump() {
									Ok(d) if d.iter().any(|(k, _)| k == b"k") => {}
									other => return Ok(Some(("data-missing-after-reopen".into(), ctx(format!("{other:?}"))))),
								}
							} else {
								w.commit(&[Write::set(b"k", b"v")], Durability::Immediate)?.map_err(|e| e)?;
								committed = true;
							}
							owner = Some(format!("opener{id}"));
							openers.insert(*id, w);
						}
					}
				}
				Lop::Close(id) => {
					if let Some(mut w) = openers.remove(id) {
						// while close() is still flushing and closing files the directory must stay locked:
						// probe the lock at three points inside it (another opener admitted there would read
						// and write the directory concurrently with the shutdown)
						let early: std::rc::Rc<std::cell::RefCell<Vec<&'static str>>> = Default::default();
						for point in ["close:before-memtable-flush", "close:before-wal-close", "close:before-directory-sync"] {
							let (e, d) = (early.clone(), dir.clone());
							surrealkv::verif::set_callback(
								point,
								Box::new(move || {
									if lock_is_free(&d) {
										e.borrow_mut().push(point);
									}
								}),
							);
						}
						let r = w.close();
						surrealkv::verif::clear_callbacks();
						r.map_err(|e| ctx(format!("close: {e}")))?;
						if let Some(p) = early.borrow().first() {
							return Ok(Some(("lock-released-before-close-finished".into(), ctx(format!("the directory lock was already free at {p}, while close() was still writing to the directory")))));
						}
						owner = None;
					}
				}
				Lop::Drop(id) => {
					if let Some(mut w) = openers.remove(id) {
						// drop the Tree inside its runtime (Drop spawns close()), then run the runtime
						{
							let _g = w.rt.as_ref().unwrap().enter();
							w.tree = None;
						}
						w.drain();
						// the Drop-spawned close awaits timers: run the runtime until the directory lock
						// has really been given back (bounded; no fixed sleep that a loaded machine
						// could outlast)
						let rt = w.rt.take().unwrap();
						for _ in 0..400 {
							rt.block_on(async { tokio::time::sleep(std::time::Duration::from_millis(25)).await });
							if lock_is_free(&dir) {
								break;
							}
						}
						drop(rt);
						owner = None;
					}
				}
				Lop::ChildOpen => {
					if child.is_some() {
						continue;
					}
					let before = dir_snapshot(&dir);
					match (&owner, spawn_child(&dir)?) {
						(Some(o), Some(_c)) => return Ok(Some(("second-instance-admitted".into(), ctx(format!("a second process opened the directory while {o} holds it"))))),
						(Some(_), None) => {
							let after = dir_snapshot(&dir);
							if after != before {
								let changed: Vec<String> = after.keys().chain(before.keys()).filter(|k| after.get(*k) != before.get(*k)).cloned().collect::<std::collections::BTreeSet<_>>().into_iter().collect();
								let only_lock = changed.iter().all(|c| c == "LOCK");
								return Ok(Some((if only_lock { "refused-open-rewrote-LOCK".to_string() } else { "refused-open-touched-files".to_string() }, ctx(format!("refused cross-process open changed {changed:?}")))));
							}
						}
						(None, None) => return Ok(Some(("free-directory-refused:child".into(), ctx("nobody holds the directory but the child process was refused".into())))),
						(None, Some(c)) => {
							owner = Some("child".into());
							child = Some(c);
						}
					}
				}
				Lop::RaceOpen(id) => {
					// the owner is the other in-process opener (the generator guarantees it)
					let other = if *id == 1 { 2u8 } else { 1u8 };
					let Some(mut wo) = openers.remove(&other) else {
						continue;
					};
					let outcome: std::rc::Rc<std::cell::RefCell<Option<Result<(), String>>>> = Default::default();
					let oc = outcome.clone();
					surrealkv::verif::set_callback(
						"lock:before-acquire",
						Box::new(move || {
							let r = (|| -> Result<(), String> {
								wo.commit(&[Write::set(b"late", b"committed-just-before-close")], Durability::Immediate)?.map_err(|e| e)?;
								wo.physical(crate::world::Phys::FlushAll)?;
								wo.close()?;
								Ok(())
							})();
							drop(wo);
							*oc.borrow_mut() = Some(r);
						}),
					);
					let mut w = World::attach(OptSet::base("L2"), &dir, &[]);
					let r = w.open();
					surrealkv::verif::clear_callbacks();
					match outcome.borrow_mut().take() {
						None => return Err(ctx("the opener never reached the lock point".into())),
						Some(Err(e)) => return Err(ctx(format!("owner's commit/flush/close inside the race failed: {e}"))),
						Some(Ok(())) => {}
					}
					match r {
						Err(e) => return Ok(Some((format!("free-directory-refused:{}", crate::props::norm_msg(&e).chars().take(50).collect::<String>()), ctx(format!("the owner had closed before the opener tried the lock, but open failed: {e}"))))),
						Ok(()) => match w.dump() {
							Ok(d) if d.iter().any(|(k, _)| k == b"k") && d.iter().any(|(k, _)| k == b"late") => {}
							other => return Ok(Some(("data-missing-after-racing-open".into(), ctx(format!("the opener won the directory right after the owner's close but does not see all committed data: {:?}", other.map(|d| d.iter().map(|(k, _)| String::from_utf8_lossy(k).to_string()).collect::<Vec<_>>())))))),
						},
					}
					// the winner now owns the directory: a further opener must be refused
					{
						let mut w3 = World::attach(OptSet::base("L2"), &dir, &[]);
						let r3 = w3.open();
						if r3.is_ok() {
							return Ok(Some(("second-instance-admitted".into(), ctx("a third opener was admitted while the opener that won the race holds the directory".into()))));
						}
						w3.abandon();
					}
					// and the directory must stay openable afterwards
					w.close().map_err(|e| ctx(format!("close: {e}")))?;
					if let Err(e) = w.open() {
						return Ok(Some(("reopen-fails-after-racing-open".into(), ctx(format!("{e}")))));
					}
					match w.dump() {
						Ok(d) if d.iter().any(|(k, _)| k == b"late") => {}
						other => return Ok(Some(("data-missing-after-racing-open".into(), ctx(format!("after a further reopen: {:?}", other.map(|d| d.len())))))),
					}
					owner = Some(format!("opener{id}"));
					openers.insert(*id, w);
				}
				Lop::DropWithLiveTxn(id) => {
					if let Some(mut w) = openers.remove(id) {
						let txn = {
							let _g = w.rt.as_ref().unwrap().enter();
							w.tree().begin_with_mode(surrealkv::Mode::ReadOnly).map_err(|e| ctx(format!("begin: {e}")))?
						};
						{
							let _g = w.rt.as_ref().unwrap().enter();
							w.tree = None;
						}
						w.drain();
						{
							let _g = w.rt.as_ref().unwrap().enter();
							drop(txn);
						}
						let rt = w.rt.take().unwrap();
						let mut released = false;
						for _ in 0..200 {
							rt.block_on(async { tokio::time::sleep(std::time::Duration::from_millis(25)).await });
							if lock_is_free(&dir) {
								released = true;
								break;
							}
						}
						drop(rt);
						if !released {
							return Ok(Some(("directory-stays-locked-after-drop".into(), ctx("the handle and its last transaction were dropped and the runtime ran for 5 s, but the directory lock is still held".into()))));
						}
						owner = None;
					}
				}
				Lop::CloseTwice(id) => {
					if let Some(mut w) = openers.remove(id) {
						use std::future::Future;
						let r = {
							let rt = w.rt.as_ref().unwrap();
							let tree = w.tree().clone();
							// first close: polled once, then abandoned
							{
								let _g = rt.enter();
								let mut f = Box::pin(tree.close());
								let waker = noop_waker();
								let mut cx = std::task::Context::from_waker(&waker);
								let _ = f.as_mut().poll(&mut cx);
							}
							rt.block_on(tree.close())
						};
						if let Err(e) = r {
							return Err(ctx(format!("second close: {e}")));
						}
						// the second close() returned Ok: the directory must be free NOW, with the handle
						// still alive and nothing else run (a later Drop would finish the job and hide it)
						let released = lock_is_free(&dir);
						let rt = w.rt.take().unwrap();
						{
							let _g = rt.enter();
							w.tree = None;
						}
						drop(rt);
						if !released {
							return Ok(Some(("close-returned-but-directory-locked".into(), ctx("close() returned Ok (after an earlier, abandoned close) but the directory lock is still held".into()))));
						}
						owner = None;
					}
				}
				Lop::CheckpointRestore(id) => {
					if let Some(w) = openers.get_mut(id) {
						let ck = fresh_dir("c19-ck");
						let r = {
							let _g = w.rt.as_ref().unwrap().enter();
							w.tree().create_checkpoint(&ck).map(|_| ()).and_then(|_| w.tree().restore_from_checkpoint(&ck).map(|_| ())).map_err(|e| format!("{e}"))
						};
						let _ = std::fs::remove_dir_all(&ck);
						r.map_err(|e| ctx(format!("checkpoint/restore: {e}")))?;
						// ownership is unchanged
					}
				}
				Lop::DropCloneElsewhere(id) => {
					if let Some(w) = openers.get(id) {
						let clone = w.tree().clone();
						std::thread::spawn(move || drop(clone)).join().map_err(|_| ctx("thread panicked".into()))?;
						// ownership is unchanged
					}
				}
				Lop::ChildKill => {
					if let Some(c) = child.take() {
						drop(c); // SIGKILL + wait
						owner = None;
					}
				}
			}
		}
		Ok(None)
	})();
	let _ = std::fs::remove_dir_all(&dir);
	res
}

fn gen(maxlen: usize) -> Vec<Vec<Lop>> {
	let mut out = vec![];
	// state: which in-process openers are open (hold a World), child alive
	fn rec(maxlen: usize, cur: &mut Vec<Lop>, o1: bool, o2: bool, ch: bool, out: &mut Vec<Vec<Lop>>) {
		if !cur.is_empty() {
			out.push(cur.clone());
		}
		if cur.len() == maxlen {
			return;
		}
		let holder = o1 || o2 || ch;
		// opens: always interesting (succeeds iff nobody holds)
		for id in [1u8, 2] {
			let is_open = if id == 1 { o1 } else { o2 };
			if !is_open {
				cur.push(Lop::Open(id));
				let won = !holder;
				rec(maxlen, cur, if id == 1 { o1 || won } else { o1 }, if id == 2 { o2 || won } else { o2 }, ch, out);
				cur.pop();
			}
		}
		if o1 && !o2 && !ch {
			cur.push(Lop::RaceOpen(2));
			rec(maxlen, cur, false, true, ch, out);
			cur.pop();
		}
		if o2 && !o1 && !ch {
			cur.push(Lop::RaceOpen(1));
			rec(maxlen, cur, true, false, ch, out);
			cur.pop();
		}
		if o1 && !cur.iter().any(|o| matches!(o, Lop::CheckpointRestore(_))) {
			cur.push(Lop::CheckpointRestore(1));
			rec(maxlen, cur, o1, o2, ch, out);
			cur.pop();
		}
		if o1 && !cur.iter().any(|o| matches!(o, Lop::DropCloneElsewhere(_))) {
			cur.push(Lop::DropCloneElsewhere(1));
			rec(maxlen, cur, o1, o2, ch, out);
			cur.pop();
		}
		if o1 {
			for op in [Lop::DropWithLiveTxn(1), Lop::CloseTwice(1)] {
				if cur.iter().any(|o| matches!(o, Lop::DropWithLiveTxn(_) | Lop::CloseTwice(_))) {
					continue;
				}
				cur.push(op);
				rec(maxlen, cur, false, o2, ch, out);
				cur.pop();
			}
		}
		if o1 {
			for op in [Lop::Close(1), Lop::Drop(1)] {
				cur.push(op);
				rec(maxlen, cur, false, o2, ch, out);
				cur.pop();
			}
		}
		if o2 {
			for op in [Lop::Close(2), Lop::Drop(2)] {
				cur.push(op);
				rec(maxlen, cur, o1, false, ch, out);
				cur.pop();
			}
		}
		if !ch {
			cur.push(Lop::ChildOpen);
			rec(maxlen, cur, o1, o2, !holder, out);
			cur.pop();
		} else {
			cur.push(Lop::ChildKill);
			rec(maxlen, cur, o1, o2, false, out);
			cur.pop();
		}
	}
	rec(maxlen, &mut vec![], false, false, false, &mut out);
	out.sort_by_key(|l| l.len());
	out
}

pub fn check(tier: Tier) -> i32 {
	let mut report = Report::new("C19", tier, "model_checking");
	let budget = Budget::new(if tier == Tier::Quick { 50.0 } else { 400.0 });
	let maxlen = if tier == Tier::Quick { 5 } else { 7 };
	let lists = gen(maxlen);
	// in-process sequences can run in parallel; sequences with a child process fork, and a forked
	// child briefly inherits open LOCK descriptors of other threads: run those one at a time
	let (with_child, without): (Vec<_>, Vec<_>) = lists.iter().cloned().partition(|l| l.iter().any(|o| matches!(o, Lop::ChildOpen)));
	let found: Mutex<Vec<(String, String, Vec<Lop>)>> = Mutex::new(vec![]);
	let done = std::sync::atomic::AtomicU64::new(0);
	let machinery: Mutex<Option<String>> = Mutex::new(None);
	let run = |l: &Vec<Lop>| {
		if budget.exhausted() {
			return;
		}
		match crate::util::guarded(|| run_seq(l)) {
			Ok(Ok(None)) => {}
			Ok(Ok(Some((c, t)))) => found.lock().unwrap().push((c, t, l.clone())),
			Ok(Err(e)) => *machinery.lock().unwrap() = Some(format!("{}: {e}", l.iter().map(lop_str).collect::<Vec<_>>().join(" "))),
			Err(p) => found.lock().unwrap().push((format!("panic:{}", crate::props::norm_msg(&p)), p, l.clone())),
		}
		done.fetch_add(1, std::sync::atomic::Ordering::Relaxed);
	};
	without.par_iter().for_each(run);
	for l in &with_child {
		run(l);
	}
	if let Some(e) = machinery.into_inner().unwrap() {
		eprintln!("machinery: {e}");
		return 2;
	}
	let mut found = found.into_inner().unwrap();
	found.sort_by_key(|f| f.2.len());
	let mut per_class: BTreeMap<String, u64> = BTreeMap::new();
	for (c, t, l) in found {
		let n = per_class.entry(c.clone()).or_default();
		*n += 1;
		report.violations.push(Violation {
			class: c,
			what: if *n == 1 { format!("{} => {t}", l.iter().map(lop_str).collect::<Vec<_>>().join(" ")) } else { String::new() },
			replay: if *n == 1 { json!({"engine": "c19", "ops": l.iter().map(lop_str).collect::<Vec<_>>()}) } else { J::Null },
		});
	}
	let d = done.load(std::sync::atomic::Ordering::Relaxed);
	report.set("evaluations", json!(d));
	report.set("states", json!(d.max(1)));
	report.set("transitions", json!(lists.iter().map(|l| l.len() as u64).sum::<u64>().max(1)));
	report.set("traces_validated_against_impl", json!(d));
	report.set("distinct_nontrivial", json!(lists.iter().filter(|l| l.len() >= 2).count()));
	report.set("rule", json!("all operation lists up to the length bound over {open by opener 1/2, close, drop (+ run the runtime so the Drop-spawned close completes), child process opens, kill child (SIGKILL)}, generated against the ownership state machine so that every list contains at least one contested or hand-over situation; non-trivial = lists of length >= 2"));
	report.set("samples", json!(["open1 open2 close1 open2", "child-open open1 child-kill open1", "open1 drop1 child-open open2"]));
	report.set("sequences", json!(lists.len()));
	report.set("sequences_with_child_process", json!(with_child.len()));
	report.set("exhaustive", json!(d as usize == lists.len()));
	report.set("failures_per_class", json!(per_class));
	report.assume("an open attempt at every scheduling point of a concurrent close() is not explored (close() is not run under the scheduler)");
	report.finish()
}

pub fn replay(r: &J) -> i32 {
	let ops: Vec<Lop> = r["ops"]
		.as_array()
		.unwrap()
		.iter()
		.map(|s| match s.as_str().unwrap() {
			"open1" => Lop::Open(1),
			"open2" => Lop::Open(2),
			"close1" => Lop::Close(1),
			"close2" => Lop::Close(2),
			"drop1" => Lop::Drop(1),
			"drop2" => Lop::Drop(2),
			"child-open" => Lop::ChildOpen,
			"checkpoint-and-restore1" => Lop::CheckpointRestore(1),
			"drop1-with-live-transaction" => Lop::DropWithLiveTxn(1),
			"close1-abandoned-then-close1" => Lop::CloseTwice(1),
			"drop-clone-of-1-on-plain-thread" => Lop::DropCloneElsewhere(1),
			"drop-clone-of-2-on-plain-thread" => Lop::DropCloneElsewhere(2),
			"open1-while-owner-closes" => Lop::RaceOpen(1),
			"open2-while-owner-closes" => Lop::RaceOpen(2),
			_ => Lop::ChildKill,
		})
		.collect();
	println!("replaying C19 {}", ops.iter().map(lop_str).collect::<Vec<_>>().join(" "));
	let a = run_seq(&ops);
	let b = run_seq(&ops);
	match (a, b) {
		(Ok(a), Ok(b)) => {
			if a.as_ref().map(|x| &x.0) != b.as_ref().map(|x| &x.0) {
				eprintln!("machinery: replay not deterministic");
				return 2;
			}
			match a {
				Some((c, t)) => {
					println!("VIOLATION property=C19 replay=<this file>\n  class={c} {t}");
					1
				}
				None => {
					println!("replay passed: no violation");
					0
				}
			}
		}
		(Err(e), _) | (_, Err(e)) => {
			eprintln!("machinery: {e}");
			2
		}
	}
}

#[allow(dead_code)]
fn unused(_: PathBuf) {}
