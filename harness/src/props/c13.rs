//! C13 — sorted tables return exactly what was written.
//!
//! Every subset (up to a size bound) of a universe of (user key, seq, kind) points is written with
//! the real TableWriter into memory, for every option set of the table-format product
//! (block size × restart interval × index partition size × compression × filter), reopened with
//! the real Table reader and compared with the sorted input: forward, backward, seek to every
//! (key, seq) target, get(key, snapshot) for every key incl. absent ones and every snapshot,
//! range-bounded iteration for all bound pairs, and the key-range shortcuts.

use std::collections::{BTreeMap, HashSet};
use std::ops::Bound;
use std::sync::{Arc, Mutex};

use rayon::prelude::*;
use serde_json::{json, Value as J};
use surrealkv::verif::{verif_write_table, VEntry, VTable};
use surrealkv::{CompressionType, Options};

use crate::util::{hex, Budget, Report, Tier, Violation};

pub const UKEYS: [&[u8]; 7] = [b"a", b"a\x00", b"ab", b"a\xff", b"a\xff\xff", b"b", b"\xff"];
/// lookup targets that are never stored (before, between, after)
pub const ABSENT: [&[u8]; 4] = [b"\x01", b"a\x01", b"az", b"\xff\xff"];
pub const SEQS: [u64; 3] = [9, 5, 0];

#[derive(Clone, Debug)]
pub struct Topt {
	pub block_size: usize,
	pub restart: usize,
	pub partition: usize,
	pub snappy: bool,
	pub filter: bool,
}

impl Topt {
	fn name(&self) -> String {
		format!("bs{}-ri{}-ps{}-{}-{}", self.block_size, self.restart, self.partition, if self.snappy { "snappy" } else { "raw" }, if self.filter { "bloom" } else { "nofilter" })
	}
	fn options(&self) -> Arc<Options> {
		static BASE: std::sync::OnceLock<Options> = std::sync::OnceLock::new();
		let mut o = BASE
			.get_or_init(Options::new)
			.clone()
			.with_block_size(self.block_size)
			.with_block_restart_interval(self.restart)
			.with_index_partition_size(self.partition)
			.with_block_cache_capacity(0);
		if !self.filter {
			o = o.with_filter_policy(None);
		}
		if self.snappy {
			o = o.with_compression_per_level(vec![CompressionType::SnappyCompression]);
		}
		Arc::new(o)
	}
}

pub fn topts(min_block: usize) -> Vec<Topt> {
	let mut v = vec![];
	for bs in [min_block, 64, 4096] {
		for ri in [1, 2, 16] {
			for ps in [1, 64, 16384] {
				for snappy in [false, true] {
					for filter in [true, false] {
						v.push(Topt {
							block_size: bs,
							restart: ri,
							partition: ps,
							snappy,
							filter,
						});
					}
				}
			}
		}
	}
	v
}

/// The universe in table order (user key asc, seq desc).
pub fn universe(nkeys: usize, nseqs: usize) -> Vec<VEntry> {
	let mut u = vec![];
	let mut i = 0usize;
	for k in &UKEYS[..nkeys] {
		// sequence number 0 is legal in a table and is the edge of the (key, seq) order
		let seqs: Vec<u64> = if nseqs == 2 { vec![9, 0] } else { SEQS[..nseqs].to_vec() };
		for s in &seqs {
			let kind = [2u8, 0, 2, 1, 6, 2, 2][i % 7]; // Set, Delete, Set, SoftDelete, Replace, Set, Set
			let value = if kind == 0 || kind == 1 {
				vec![]
			} else {
				match i % 4 {
					0 => vec![],
					1 => b"\x00\x01v".to_vec(),
					3 => {
						// high-entropy bytes: a block holding them does not shrink under compression
						let mut x: u64 = 0x9e37_79b9_7f4a_7c15 ^ (i as u64).wrapping_mul(0xff51_afd7_ed55_8ccd);
						(0..700)
							.map(|_| {
								x ^= x << 13;
								x ^= x >> 7;
								x ^= x << 17;
								(x >> 24) as u8
							})
							.collect()
					}
					_ => {
						// pointer-shaped: meta=BIT_VALUE_POINTER, version, 25-byte pointer
						let mut v = vec![1u8, 1, 1];
						v.extend_from_slice(&(7u32 + i as u32).to_be_bytes());
						v.extend_from_slice(&[0u8; 20]);
						v
					}
				}
			};
			u.push(VEntry {
				user_key: k.to_vec(),
				seq: *s,
				kind,
				ts: 1000 + i as u64,
				value,
			});
			i += 1;
		}
	}
	u
}

fn subsets(n: usize, max: usize) -> Vec<Vec<usize>> {
	let mut out = vec![];
	fn rec(n: usize, max: usize, start: usize, cur: &mut Vec<usize>, out: &mut Vec<Vec<usize>>) {
		if !cur.is_empty() {
			out.push(cur.clone());
		}
		if cur.len() == max {
			return;
		}
		for i in start..n {
			cur.push(i);
			rec(n, max, i + 1, cur, out);
			cur.pop();
		}
	}
	rec(n, max, 0, &mut vec![], &mut out);
	out.sort_by_key(|s| s.len());
	out
}

fn e_str(e: &VEntry) -> String {
	format!("{}@{}k{}", hex(&e.user_key), e.seq, e.kind)
}

fn list_str(v: &[VEntry]) -> String {
	format!("[{}]", v.iter().map(e_str).collect::<Vec<_>>().join(" "))
}

fn in_bounds(k: &[u8], lo: &Bound<Vec<u8>>, hi: &Bound<Vec<u8>>) -> bool {
	(match lo {
		Bound::Unbounded => true,
		Bound::Included(l) => k >= l.as_slice(),
		Bound::Excluded(l) => k > l.as_slice(),
	}) && (match hi {
		Bound::Unbounded => true,
		Bound::Included(h) => k <= h.as_slice(),
		Bound::Excluded(h) => k < h.as_slice(),
	})
}

fn bound_str(b: &Bound<Vec<u8>>) -> String {
	match b {
		Bound::Unbounded => "-".into(),
		Bound::Included(k) => format!("[{}", hex(k)),
		Bound::Excluded(k) => format!("({}", hex(k)),
	}
}

/// Check one table; returns (class, text) of the first disagreement.
pub fn check_table(opt: &Topt, entries: &[VEntry], nkeys: usize, all_bounds: bool) -> Result<Option<(String, String)>, String> {
	let opts = opt.options();
	let bytes = match verif_write_table(&opts, 7, if opt.snappy { 0 } else { 0 }, entries) {
		Ok(b) => b,
		Err(e) => return Ok(Some(("write-error".into(), format!("TableWriter: {e}")))),
	};
	let table = match VTable::open(&opts, 7, bytes) {
		Ok(t) => t,
		Err(e) => return Ok(Some(("open-error".into(), format!("Table::new: {e}")))),
	};
	let unb = Bound::Unbounded;
	// forward / backward
	{
		let mut it = table.iter(&unb, &unb).map_err(|e| format!("{e}"))?;
		let mut got = vec![];
		let mut ok = match it.seek_first() {
			Ok(b) => b,
			Err(e) => return Ok(Some(("iter-error".into(), format!("seek_first: {e}")))),
		};
		while ok {
			got.push(it.entry().map_err(|e| format!("{e}"))?);
			ok = match it.next() {
				Ok(b) => b,
				Err(e) => return Ok(Some(("iter-error".into(), format!("next: {e}")))),
			};
			if got.len() > 1000 {
				return Ok(Some(("iter-loop".into(), "forward iteration does not terminate".into())));
			}
		}
		if got != entries {
			return Ok(Some(("forward".into(), format!("forward = {}, expected {}", list_str(&got), list_str(entries)))));
		}
		let mut got = vec![];
		let mut ok = match it.seek_last() {
			Ok(b) => b,
			Err(e) => return Ok(Some(("iter-error".into(), format!("seek_last: {e}")))),
		};
		while ok {
			got.push(it.entry().map_err(|e| format!("{e}"))?);
			ok = match it.prev() {
				Ok(b) => b,
				Err(e) => return Ok(Some(("iter-error".into(), format!("prev: {e}")))),
			};
			if got.len() > 1000 {
				return Ok(Some(("iter-loop".into(), "backward iteration does not terminate".into())));
			}
		}
		got.reverse();
		if got != entries {
			return Ok(Some(("backward".into(), format!("backward = {}, expected {}", list_str(&got), list_str(entries)))));
		}
		// seek to every (key, seq) target incl. absent keys; then one step in each direction
		let mut targets: Vec<&[u8]> = UKEYS[..nkeys].to_vec();
		targets.extend_from_slice(&ABSENT);
		for t in &targets {
			for s in [10u64, 9, 7, 5, 1, 0] {
				let ok = match it.seek(t, s) {
					Ok(b) => b,
					Err(e) => return Ok(Some(("iter-error".into(), format!("seek({},{s}): {e}", hex(t))))),
				};
				let idx = entries.iter().position(|e| e.user_key.as_slice() > *t || (e.user_key.as_slice() == *t && e.seq <= s));
				let exp = idx.map(|i| entries[i].clone());
				let got = if ok { Some(it.entry().map_err(|e| format!("{e}"))?) } else { None };
				if got != exp {
					return Ok(Some((
						"seek".into(),
						format!("seek({},{s}) -> {:?}, expected {:?}; table {}", hex(t), got.as_ref().map(e_str), exp.as_ref().map(e_str), list_str(entries)),
					)));
				}
				if let Some(i) = idx {
					// next after seek
					let ok = it.next().map_err(|e| format!("{e}"))?;
					let got = if ok { Some(it.entry().map_err(|e| format!("{e}"))?) } else { None };
					let exp = entries.get(i + 1).cloned();
					if got != exp {
						return Ok(Some(("seek-next".into(), format!("seek({},{s}) then next -> {:?}, expected {:?}; table {}", hex(t), got.as_ref().map(e_str), exp.as_ref().map(e_str), list_str(entries)))));
					}
					// prev after seek (fresh seek)
					it.seek(t, s).map_err(|e| format!("{e}"))?;
					let ok = it.prev().map_err(|e| format!("{e}"))?;
					let got = if ok { Some(it.entry().map_err(|e| format!("{e}"))?) } else { None };
					let exp = if i > 0 { Some(entries[i - 1].clone()) } else { None };
					if got != exp {
						return Ok(Some(("seek-prev".into(), format!("seek({},{s}) then prev -> {:?}, expected {:?}; table {}", hex(t), got.as_ref().map(e_str), exp.as_ref().map(e_str), list_str(entries)))));
					}
				}
			}
		}
	}
	// point lookups
	{
		let mut targets: Vec<&[u8]> = UKEYS[..nkeys].to_vec();
		targets.extend_from_slice(&ABSENT);
		for t in &targets {
			for snap in 0..=10u64 {
				let exp = entries.iter().find(|e| e.user_key.as_slice() == *t && e.seq <= snap).cloned();
				let got = match table.get(t, snap) {
					Ok(g) => g,
					Err(e) => return Ok(Some(("get-error".into(), format!("get({},{snap}): {e}", hex(t))))),
				};
				if got != exp {
					let class = if exp.is_some() && got.is_none() { "get-hides-present" } else { "get-wrong" };
					return Ok(Some((
						class.into(),
						format!("get({},{snap}) -> {:?}, expected {:?}; table {}", hex(t), got.as_ref().map(e_str), exp.as_ref().map(e_str), list_str(entries)),
					)));
				}
				// the key-range shortcut must never exclude a present key
				if exp.is_some() && !table.is_key_in_key_range(t) {
					return Ok(Some(("shortcut-hides-present".into(), format!("is_key_in_key_range({}) = false but the key is stored; table {}", hex(t), list_str(entries)))));
				}
			}
		}
	}
	// range-bounded iteration + shortcuts
	{
		let mut pts: Vec<Vec<u8>> = UKEYS[..nkeys].iter().map(|k| k.to_vec()).collect();
		pts.extend(ABSENT.iter().map(|k| k.to_vec()));
		pts.sort();
		let mut bounds: Vec<Bound<Vec<u8>>> = vec![Bound::Unbounded];
		for p in &pts {
			bounds.push(Bound::Included(p.clone()));
			if all_bounds {
				bounds.push(Bound::Excluded(p.clone()));
			}
		}
		for lo in &bounds {
			for hi in &bounds {
				// skip inverted ranges (not meaningful for a table iterator)
				if let (Bound::Included(l) | Bound::Excluded(l), Bound::Included(h) | Bound::Excluded(h)) = (lo, hi) {
					if l > h {
						continue;
					}
				}
				let exp: Vec<VEntry> = entries.iter().filter(|e| in_bounds(&e.user_key, lo, hi)).cloned().collect();
				let (before, after, overlaps) = table.range_shortcuts(lo, hi);
				if !exp.is_empty() && (before || after || !overlaps) {
					return Ok(Some((
						"shortcut-hides-present".into(),
						format!("range {}..{}: is_before={before} is_after={after} overlaps={overlaps} but {} entries are in range; table {}", bound_str(lo), bound_str(hi), exp.len(), list_str(entries)),
					)));
				}
				let mut it = match table.iter(lo, hi) {
					Ok(it) => it,
					Err(e) => return Ok(Some(("iter-error".into(), format!("iter({}..{}): {e}", bound_str(lo), bound_str(hi))))),
				};
				for fwd in [true, false] {
					let mut got = vec![];
					let mut ok = (if fwd { it.seek_first() } else { it.seek_last() }).map_err(|e| format!("{e}"))?;
					while ok {
						got.push(it.entry().map_err(|e| format!("{e}"))?);
						ok = (if fwd { it.next() } else { it.prev() }).map_err(|e| format!("{e}"))?;
						if got.len() > 1000 {
							return Ok(Some(("iter-loop".into(), "bounded iteration does not terminate".into())));
						}
					}
					if !fwd {
						got.reverse();
					}
					if got != exp {
						return Ok(Some((
							format!("bounded-{}", if fwd { "forward" } else { "backward" }),
							format!("range {}..{} {} = {}, expected {}; table {}", bound_str(lo), bound_str(hi), if fwd { "forward" } else { "backward" }, list_str(&got), list_str(&exp), list_str(entries)),
						)));
					}
				}
			}
		}
	}
	Ok(None)
}

/// A table with `n` entries (one version per key, sequential keys): every stored key must be found
/// by a point lookup and by a seek, keys between the stored ones must not be, and a forward scan
/// must return all of them. Covers boundaries that only tables with thousands of entries cross
/// (many data blocks, several index partitions, filter sizing).
pub fn check_large_table(opt: &Topt, n: usize) -> Result<Option<(String, String)>, String> {
	let entries: Vec<VEntry> = (0..n)
		.map(|i| VEntry {
			user_key: format!("k{:07}", i * 2).into_bytes(),
			seq: 5,
			kind: 1,
			ts: 0,
			value: format!("v{i}").into_bytes(),
		})
		.collect();
	let opts = opt.options();
	let bytes = match verif_write_table(&opts, 7, 0, &entries) {
		Ok(b) => b,
		Err(e) => return Ok(Some(("write-error".into(), format!("TableWriter ({n} entries): {e}")))),
	};
	let table = match VTable::open(&opts, 7, bytes) {
		Ok(t) => t,
		Err(e) => return Ok(Some(("open-error".into(), format!("Table::new ({n} entries): {e}")))),
	};
	let unb = Bound::Unbounded;
	let mut it = table.iter(&unb, &unb).map_err(|e| format!("{e}"))?;
	let mut ok = it.seek_first().map_err(|e| format!("{e}"))?;
	let mut i = 0usize;
	while ok {
		let e = it.entry().map_err(|e| format!("{e}"))?;
		if i >= n || e != entries[i] {
			return Ok(Some(("forward".into(), format!("table of {n} entries: forward scan position {i} returned {}", e_str(&e)))));
		}
		i += 1;
		ok = it.next().map_err(|e| format!("{e}"))?;
	}
	if i != n {
		return Ok(Some(("forward".into(), format!("table of {n} entries: forward scan returned {i} entries"))));
	}
	for (i, e) in entries.iter().enumerate() {
		for snap in [5u64, 9] {
			match table.get(&e.user_key, snap) {
				Err(er) => return Ok(Some(("get-error".into(), format!("table of {n} entries: get(entry {i}, {snap}): {er}")))),
				Ok(Some(g)) if &g == e => {}
				Ok(g) => {
					let class = if g.is_none() { "get-hides-present" } else { "get-wrong" };
					return Ok(Some((class.into(), format!("table of {n} sequential entries: get({}, {snap}) -> {:?}, expected entry {i}", hex(&e.user_key), g.as_ref().map(e_str)))));
				}
			}
		}
		if table.get(&e.user_key, 4).map_err(|e| format!("{e}"))?.is_some() {
			return Ok(Some(("get-wrong".into(), format!("table of {n} entries: get({}, 4) returned a version newer than the snapshot", hex(&e.user_key)))));
		}
		// the odd key after it is absent
		let absent = format!("k{:07}", i * 2 + 1).into_bytes();
		if let Some(g) = table.get(&absent, 9).map_err(|e| format!("{e}"))? {
			return Ok(Some(("get-wrong".into(), format!("table of {n} entries: get of absent key {} returned {}", hex(&absent), e_str(&g)))));
		}
		if i % 97 == 0 || i + 2 >= n || (i % 16384) < 2 || (i % 16384) > 16381 {
			let ok = it.seek(&absent, 9).map_err(|e| format!("{e}"))?;
			let got = if ok { Some(it.entry().map_err(|e| format!("{e}"))?) } else { None };
			if got.as_ref() != entries.get(i + 1) {
				return Ok(Some(("seek".into(), format!("table of {n} entries: seek({}) -> {:?}, expected entry {}", hex(&absent), got.as_ref().map(e_str), i + 1))));
			}
		}
	}
	Ok(None)
}

pub fn check(tier: Tier) -> i32 {
	let mut report = Report::new("C13", tier, "model_checking");
	let budget = Budget::new(if tier == Tier::Quick { 45.0 } else { 1100.0 });
	// (keys, seqs per key, max subset size, all bound kinds)
	let plans: Vec<(usize, usize, usize, bool)> =
		if tier == Tier::Quick { vec![(7, 2, 3, false), (4, 3, 4, false), (3, 2, 3, true)] } else { vec![(7, 2, 6, true), (7, 3, 5, true), (4, 3, 9, true)] };
	// smallest block size that does not hit the empty-block flush (see DESIGN.md, finding on block_size <= 8)
	let opts = topts(20);
	let mut evaluations = 0u64;
	let mut transitions = 0u64;
	let mut nontrivial = 0u64;
	let mut states: HashSet<u64> = HashSet::new();
	let mut per_class: BTreeMap<String, u64> = BTreeMap::new();
	let mut completed = vec![];
	let mut all_complete = true;
	let mut first_of_class: BTreeMap<String, (String, J)> = BTreeMap::new();
	// block_size below the empty-block overhead: one table per small size, judged separately
	for bs in [1usize, 4, 8] {
		let o = Topt {
			block_size: bs,
			restart: 16,
			partition: 16384,
			snappy: false,
			filter: true,
		};
		let u = universe(2, 2);
		evaluations += 1;
		let r = crate::util::guarded(|| check_table(&o, &u, 2, false));
		let f = match r {
			Ok(Ok(f)) => f,
			Ok(Err(e)) => Some(("check-error".into(), e)),
			Err(p) => Some((format!("panic:tiny-block-size:{}", crate::props::norm_msg(&p)), p)),
		};
		if let Some((class, text)) = f {
			*per_class.entry(class.clone()).or_default() += 1;
			first_of_class.entry(class).or_insert((format!("[{}] table {} => {}", o.name(), list_str(&u), text), json!({"engine": "c13", "opt": o.name(), "keys": 2, "seqs": 2, "subset": [0, 1, 2, 3], "all_bounds": false})));
		}
	}
	// large tables (sizes around powers of two and beyond): a handful of option sets
	let mut large_done = vec![];
	{
		let sizes: Vec<usize> = if tier == Tier::Quick { vec![1023, 1025, 16383, 16385, 33000] } else { vec![255, 257, 1023, 1025, 4097, 16383, 16384, 16385, 32769, 65537, 140000] };
		let lopts: Vec<Topt> = [(4096usize, 16usize, 16384usize, false, true), (64, 2, 64, false, true), (4096, 16, 16384, true, true), (256, 16, 1, false, false)]
			.iter()
			.map(|(b, r, p, s, f)| Topt { block_size: *b, restart: *r, partition: *p, snappy: *s, filter: *f })
			.collect();
		let cases: Vec<(Topt, usize)> = lopts.iter().flat_map(|o| sizes.iter().map(move |n| (o.clone(), *n))).collect();
		let res: Vec<(usize, Option<(String, String)>)> = cases
			.par_iter()
			.enumerate()
			.map(|(i, (o, n))| {
				let r = match crate::util::guarded(|| check_large_table(o, *n)) {
					Ok(Ok(f)) => f,
					Ok(Err(e)) => Some(("check-error".into(), e)),
					Err(p) => Some((format!("panic:{}", crate::props::norm_msg(&p)), p)),
				};
				(i, r)
			})
			.collect();
		for (i, r) in res {
			evaluations += 1;
			transitions += cases[i].1 as u64;
			nontrivial += 1;
			if let Some((class, text)) = r {
				*per_class.entry(class.clone()).or_default() += 1;
				first_of_class.entry(class).or_insert((format!("[{}] {}", cases[i].0.name(), text), json!({"engine": "c13-large", "opt": cases[i].0.name(), "n": cases[i].1})));
			}
		}
		large_done.push(format!("large tables: sizes {:?} x {} option sets", sizes, lopts.len()));
	}
	'outer: for (nkeys, nseqs, maxsub, all_bounds) in &plans {
		let u = universe(*nkeys, *nseqs);
		let subs = subsets(u.len(), *maxsub);
		for (oi, opt) in opts.iter().enumerate() {
			if budget.exhausted() {
				all_complete = false;
				report.set("cap_hit", json!(format!("time cap hit at plan keys={nkeys} seqs={nseqs} subset<={maxsub} after {oi} of {} option sets", opts.len())));
				completed.push(format!("keys={nkeys} seqs={nseqs} subsets<={maxsub}: {oi} of {} option sets", opts.len()));
				break 'outer;
			}
			let found: Mutex<Vec<(usize, String, String)>> = Mutex::new(vec![]);
			let blocks = std::sync::atomic::AtomicU64::new(0);
			subs.par_iter().enumerate().for_each(|(si, sub)| {
				let entries: Vec<VEntry> = sub.iter().map(|i| u[*i].clone()).collect();
				let r = crate::util::guarded(|| check_table(opt, &entries, *nkeys, *all_bounds));
				match r {
					Ok(Ok(None)) => {}
					Ok(Ok(Some((c, t)))) => found.lock().unwrap().push((si, c, t)),
					Ok(Err(e)) => found.lock().unwrap().push((si, "check-error".into(), e)),
					Err(p) => found.lock().unwrap().push((si, format!("panic:{}", crate::props::norm_msg(&p)), p)),
				}
				if entries.len() >= 2 {
					blocks.fetch_add(1, std::sync::atomic::Ordering::Relaxed);
				}
			});
			evaluations += subs.len() as u64;
			transitions += subs.iter().map(|s| s.len() as u64).sum::<u64>();
			nontrivial += blocks.load(std::sync::atomic::Ordering::Relaxed);
			states.insert(crate::util::fnv64(opt.name().as_bytes()));
			let mut found = found.into_inner().unwrap();
			found.sort_by_key(|f| f.0);
			for (si, class, text) in found {
				*per_class.entry(class.clone()).or_default() += 1;
				first_of_class.entry(class).or_insert((
					format!("[{}] subset {:?} of universe(keys={nkeys},seqs={nseqs}) => {}", opt.name(), subs[si], text),
					json!({"engine": "c13", "opt": opt.name(), "keys": nkeys, "seqs": nseqs, "subset": subs[si], "all_bounds": all_bounds}),
				));
			}
		}
		completed.push(format!("keys={nkeys} seqs={nseqs} subsets<={maxsub} ({} tables) x all {} option sets", subs.len(), opts.len()));
	}
	for (class, n) in &per_class {
		let (text, replay) = first_of_class.get(class).cloned().unwrap_or_default();
		report.violations.push(Violation {
			class: class.clone(),
			what: text,
			replay,
		});
		for _ in 1..*n {
			report.violations.push(Violation {
				class: class.clone(),
				what: String::new(),
				replay: J::Null,
			});
		}
	}
	report.set("evaluations", json!(evaluations));
	report.set("states", json!((states.len() as u64 * 1).max(1)));
	report.set("transitions", json!(transitions.max(1)));
	report.set("traces_validated_against_impl", json!(evaluations));
	report.set("distinct_nontrivial", json!(nontrivial));
	report.set("rule", json!("tables = every non-empty subset (size <= bound) of the universe {7 user keys incl. 0x00/0xff runs and prefixes} x {seqs 9,5,1}, kinds cycle Set/Delete/SoftDelete/Replace, values empty / 3 B / pointer-shaped; x 108 option sets (block 20/64/4096 x restart 1/2/16 x partition 1/64/16384 x snappy x bloom); per table: forward, backward, seek(+next/prev) to every (key,seq) target incl. absent keys, get for every key x snapshot 0..10, all bound pairs, shortcuts; non-trivial = tables with >= 2 entries; states = option sets"));
	report.set("samples", json!(["[bs20-ri1-ps1-raw-bloom] a@9k2 a@5k0 a\\xff@9k6 \\xff@5k2", "[bs64-ri2-ps64-snappy-nofilter] a\\x00@9k2 a\\xff\\xff@5k2 ab@9k1"]));
	completed.extend(large_done);
	report.set("bounds_completed", json!(completed));
	report.set("exhaustive", json!(all_complete));
	report.set("failures_per_class", json!(per_class));
	report.assume("tables are written to and read from memory (Vec<u8> implements the crate's File trait); the store's file path is covered by C06/C09");
	report.assume("block cache capacity 0 so every read goes through the block decoder");
	report.finish()
}

pub fn replay(r: &J) -> i32 {
	let name = r["opt"].as_str().unwrap_or("");
	if r["engine"] == "c13-large" {
		let n = r["n"].as_u64().unwrap_or(0) as usize;
		let parts: Vec<&str> = name.split('-').collect();
		let num = |s: &str| s.trim_start_matches(|c: char| c.is_ascii_alphabetic()).parse::<usize>().unwrap_or(0);
		if parts.len() != 5 {
			eprintln!("machinery: bad option set name {name}");
			return 2;
		}
		let opt = Topt { block_size: num(parts[0]), restart: num(parts[1]), partition: num(parts[2]), snappy: parts[3] == "snappy", filter: parts[4] == "bloom" };
		println!("replaying C13 large table [{}] n={n}", opt.name());
		return match crate::util::guarded(|| check_large_table(&opt, n)) {
			Ok(Ok(None)) => {
				println!("replay passed: no violation");
				0
			}
			Ok(Ok(Some((c, t)))) => {
				println!("VIOLATION property=C13 replay=<this file>\n  class={c} {t}");
				1
			}
			Ok(Err(e)) => {
				eprintln!("machinery: {e}");
				2
			}
			Err(p) => {
				println!("VIOLATION property=C13 replay=<this file>\n  class=panic {p}");
				1
			}
		};
	}
	let mut all = topts(20);
	for bs in [1usize, 4, 8] {
		all.push(Topt {
			block_size: bs,
			restart: 16,
			partition: 16384,
			snappy: false,
			filter: true,
		});
	}
	let Some(opt) = all.into_iter().find(|o| o.name() == name) else {
		eprintln!("machinery: unknown option set {name}");
		return 2;
	};
	let nkeys = r["keys"].as_u64().unwrap() as usize;
	let u = universe(nkeys, r["seqs"].as_u64().unwrap() as usize);
	let entries: Vec<VEntry> = r["subset"].as_array().unwrap().iter().map(|i| u[i.as_u64().unwrap() as usize].clone()).collect();
	println!("replaying C13 [{}] {}", opt.name(), list_str(&entries));
	let run = || match crate::util::guarded(|| check_table(&opt, &entries, nkeys, r["all_bounds"].as_bool().unwrap_or(false))) {
		Ok(Ok(f)) => f,
		Ok(Err(e)) => Some(("check-error".into(), e)),
		Err(p) => Some(("panic".into(), p)),
	};
	let a = run();
	if a != run() {
		eprintln!("machinery: replay not deterministic");
		return 2;
	}
	match a {
		Some((c, t)) => {
			println!("VIOLATION property=C13 replay=<this file>\n  class={c} {t}");
			1
		}
		None => {
			println!("replay passed: no violation");
			0
		}
	}
}
