//! Schedule-exploration checks (engine: schedx).
//!
//! C05 — commits become visible atomically, in one real-time-consistent total order:
//!   2–3 committers with batches of different sizes (one with a duplicate key from savepoint
//!   history), optionally against a nearly full memtable so that the rotation falls inside an
//!   apply, plus a background thread that flushes and compacts; a read-only probe transaction is
//!   run at EVERY scheduling point of every explored schedule.
//! C17 — commits and shutdown always complete: committers against a nearly full memtable with the
//!   lowest legal stall threshold, a background flusher, injected WAL/apply failures and a closer
//!   thread issuing the shutdown signals; every schedule must terminate (deadlock / livelock
//!   detector of the scheduler), no panic, no queue overflow.
//! C04 (schedule part) — first committer wins under interleaving: transactions with overlapping
//!   key sets begin and commit concurrently; at most one of two overlapping conflicting
//!   transactions commits, failed ones leave no trace.
//! C01 (schedule part) — a long-lived reader's repeated reads stay identical while committers,
//!   flush and compaction interleave with its begin and its reads.

use std::collections::{BTreeMap, BTreeSet};
use std::sync::atomic::{AtomicBool, AtomicU64, Ordering};
use std::sync::{Arc, Mutex};

use rayon::prelude::*;
use serde_json::{json, Value as J};
use surrealkv::{Error, Mode, Tree};

use crate::schedx::{explore, run, Execution, Point, ProbeFn, Program, Sched};
use crate::util::{Budget, Report, Tier, Violation};
use crate::world::{OptSet, World};

#[derive(Clone, Debug)]
pub struct Scenario {
	pub name: &'static str,
	pub property: &'static str,
	/// committers: list of (keys written, with duplicate-key savepoint history?)
	pub committers: Vec<Vec<&'static str>>,
	pub dup_key: bool,
	pub bg: bool,
	pub near_full: bool,
	pub closer: bool,
	pub fail: Option<(&'static str, usize)>, // (fail point, committer index)
	pub reader: bool,
	pub stall_low: bool,
	/// value-log scenario: tables pointing into several vlog files, a compaction thread and a
	/// flush thread (no committers)
	pub vlog: bool,
	/// value-log variant: the existing tables hold only small inline values (no table points into
	/// the value log yet); the pending memtable holds the large values
	pub vlog_small_tables: bool,
	/// all committers run the same program on private keys: threads that have not run yet are
	/// interchangeable, so only the lowest-numbered of them is ever switched to
	pub symmetric: bool,
	/// bound every departure from the default schedule (also the choice of another thread at a
	/// blocking point), not only preemptions: needed where many threads make the free choices
	/// at blocking points explode
	pub deviation_bounded: bool,
	/// near_full: how many small entries still fit the active memtable after the prefill
	pub room: usize,
	/// two flushers: the background flush and a checkpoint (which flushes synchronously), with
	/// one immutable memtable pending and a non-empty active memtable; no committers
	pub two_flushers: bool,
	/// checkpoint (kept, then opened on its own) against a compaction round and a background flush;
	/// no committers: the checkpoint must hold exactly the committed data
	pub checkpoint_vs_bg: bool,
	/// a history cursor (version index + value log) stepped while a compaction drops the expired
	/// first versions and cleans up their value-log files
	pub history_cursor: bool,
	/// the reader is thread 0 (it runs before the background thread in the default order)
	pub reader_first: bool,
	/// the store starts with two immutable memtables pending (at the stall limit) and there is no
	/// background thread: only the closer's shutdown signal can release a stalled writer
	pub two_pending: bool,
	/// every committer except the first has its commit-log write fail (injected)
	pub fail_all_but_first: bool,
	/// preemption bounds (quick, thorough)
	pub bounds: (usize, usize),
}

pub fn scenarios(property: &str, tier: Tier) -> Vec<Scenario> {
	let base = Scenario {
		name: "",
		property: "",
		committers: vec![],
		dup_key: false,
		bg: false,
		near_full: false,
		closer: false,
		fail: None,
		reader: false,
		stall_low: false,
		vlog: false,
		vlog_small_tables: false,
		symmetric: false,
		deviation_bounded: false,
		room: 1,
		two_flushers: false,
		checkpoint_vs_bg: false,
		history_cursor: false,
		reader_first: false,
		two_pending: false,
		fail_all_but_first: false,
		bounds: (2, 3),
	};
	let all = vec![
		Scenario {
			name: "c05-two-committers",
			property: "C05",
			committers: vec![vec!["a0", "b0"], vec!["a1"]],
			..base.clone()
		},
		Scenario {
			name: "c05-three-committers-dup",
			property: "C05",
			committers: vec![vec!["a0", "b0"], vec!["a1"], vec!["c0", "c1", "c2", "c3"]],
			dup_key: true,
			bounds: (1, 2),
			..base.clone()
		},
		Scenario {
			name: "c05-rotation-inside-apply-bg",
			property: "C05",
			bounds: (2, 2),
			committers: vec![vec!["a0", "b0", "c0"], vec!["a1", "b1"]],
			bg: true,
			near_full: true,
			..base.clone()
		},
		Scenario {
			// a commit whose commit-log write fails, between two that succeed: its sequence
			// numbers are used up, nothing of it is ever visible, the others are unaffected
			name: "c05-wal-failure-between-commits",
			property: "C05",
			bounds: (2, 2),
			committers: vec![vec!["a0", "b0"], vec!["a1", "b1", "c1"], vec!["a2"]],
			fail: Some(("commit.wal", 1)),
			..base.clone()
		},
		Scenario {
			// the first batch fits the room that is left, the second does not: its rotation (and the
			// background flush of the old memtable) must wait for the first batch's insert
			name: "c05-rotation-overtakes-insert",
			property: "C05",
			bounds: (2, 2),
			committers: vec![vec!["a0", "b0", "c0"], vec!["a1", "b1"]],
			bg: true,
			near_full: true,
			room: 3,
			..base.clone()
		},
		Scenario {
			name: "c17-stall-rotation-bg",
			property: "C17",
			bounds: (1, 2),
			committers: if tier == Tier::Quick { vec![vec!["a0", "b0"], vec!["a1", "b1"]] } else { vec![vec!["a0", "b0"], vec!["a1", "b1"], vec!["a2"]] },
			bg: true,
			near_full: true,
			stall_low: true,
			..base.clone()
		},
		Scenario {
			name: "c17-shutdown-in-the-middle",
			property: "C17",
			bounds: (1, 2),
			committers: vec![vec!["a0", "b0"], vec!["a1"]],
			bg: true,
			near_full: true,
			stall_low: true,
			closer: true,
			..base.clone()
		},
		Scenario {
			name: "c17-shutdown-while-stalled-no-flusher",
			property: "C17",
			bounds: (2, 3),
			committers: vec![vec!["a0"], vec!["a1"]],
			near_full: true,
			stall_low: true,
			two_pending: true,
			closer: true,
			..base.clone()
		},
		Scenario {
			name: "c17-wal-failure",
			property: "C17",
			bounds: (2, 3),
			committers: vec![vec!["a0", "b0"], vec!["a1"], vec!["a2"]],
			fail: Some(("commit.wal", 1)),
			..base.clone()
		},
		Scenario {
			name: "c17-apply-failure",
			property: "C17",
			bounds: (2, 3),
			committers: vec![vec!["a0", "b0"], vec!["a1"], vec!["a2"]],
			fail: Some(("commit.apply", 0)),
			..base.clone()
		},
		Scenario {
			// more committers than the commit queue has slots (8) / the pipeline has permits (7):
			// the oldest batch can be held back in its apply while all others pass through
			name: "c17-nine-committers",
			property: "C17",
			bounds: (1, 2),
			committers: vec![vec!["n0"], vec!["n1"], vec!["n2"], vec!["n3"], vec!["n4"], vec!["n5"], vec!["n6"], vec!["n7"], vec!["n8"]],
			symmetric: true,
			deviation_bounded: true,
			..base.clone()
		},
		Scenario {
			// nine committers, the second one's log write fails: its batch stays queued behind a
			// slow first one without a committer (and, if permits follow committers, without a permit)
			name: "c17-nine-committers-one-failing",
			property: "C17",
			bounds: (1, 2),
			committers: vec![vec!["n0"], vec!["n1"], vec!["n2"], vec!["n3"], vec!["n4"], vec!["n5"], vec!["n6"], vec!["n7"], vec!["n8"]],
			deviation_bounded: true,
			fail: Some(("commit.wal", 1)),
			..base.clone()
		},
		Scenario {
			// one slow committer and eight whose log write fails: a failed commit returns (and gives
			// its permit back) while its batch still sits in the queue behind the slow one
			name: "c17-one-slow-eight-failing",
			property: "C17",
			bounds: (1, 2),
			committers: vec![vec!["n0"], vec!["n1"], vec!["n2"], vec!["n3"], vec!["n4"], vec!["n5"], vec!["n6"], vec!["n7"], vec!["n8"]],
			symmetric: false,
			deviation_bounded: true,
			fail_all_but_first: true,
			..base.clone()
		},
		Scenario {
			name: "c04-overlapping-keys",
			property: "C04",
			committers: vec![vec!["x", "y"], vec!["y", "z"], vec!["w"]],
			..base.clone()
		},
		Scenario {
			name: "c04-overlapping-keys-apply-failure",
			property: "C04",
			committers: vec![vec!["x", "y"], vec!["y"], vec!["y", "z"]],
			fail: Some(("commit.apply", 0)),
			..base.clone()
		},
		Scenario {
			name: "c02-crash-after-concurrent-commits-rotation-flush",
			property: "C02",
			committers: vec![vec!["a0", "b0"], vec!["a1", "b1", "c1"]],
			bg: true,
			near_full: true,
			bounds: (2, 3),
			..base.clone()
		},
		Scenario {
			name: "c01-reader-vs-commit-flush-compact",
			property: "C01",
			bounds: (1, 2),
			committers: vec![vec!["a0"], vec!["a0"]],
			bg: true,
			reader: true,
			..base.clone()
		},
		Scenario {
			// a reader opening range cursors (two lock acquisitions) against rotate / flush / compaction
			// only: small enough for every schedule within the bound, the reader goes first
			name: "c01-range-cursor-vs-flush",
			property: "C01",
			bounds: (2, 3),
			committers: vec![],
			bg: true,
			reader: true,
			reader_first: true,
			..base.clone()
		},
		Scenario {
			name: "c14-checkpoint-vs-compaction-and-flush",
			property: "C14",
			bounds: (2, 3),
			checkpoint_vs_bg: true,
			..base.clone()
		},
		Scenario {
			name: "c06-checkpoint-flush-vs-background-flush",
			property: "C06",
			bounds: (2, 3),
			two_flushers: true,
			..base.clone()
		},
		Scenario {
			name: "c11-flush-and-cleanup-during-compaction",
			property: "C11",
			bounds: (2, 3),
			vlog: true,
			..base.clone()
		},
		Scenario {
			// the compaction's clean-up runs after the flush has written its value-log files but
			// before the table that points into them is installed
			name: "c11-compaction-cleanup-during-flush",
			property: "C11",
			bounds: (2, 3),
			vlog: true,
			vlog_small_tables: true,
			..base.clone()
		},
		Scenario {
			name: "c11-history-cursor-vs-compaction-cleanup",
			property: "C11",
			bounds: (2, 3),
			history_cursor: true,
			..base.clone()
		},
	];
	let _ = tier;
	all.into_iter().filter(|s| s.property == property).collect()
}

/// Shared, lock-free observation board written by the threads and read by probe and oracle.
struct Board {
	started: Vec<AtomicBool>,
	returned: Vec<AtomicBool>,
	ok: Vec<AtomicBool>,
	probes: Mutex<Vec<ProbeObs>>,
	reader_obs: Mutex<Vec<String>>,
	/// what each committer read for its keys in its own snapshot before writing
	seen: Mutex<Vec<BTreeMap<String, Option<String>>>>,
}

#[derive(Clone, Debug)]
struct ProbeObs {
	step: usize,
	label: &'static str,
	visible_seq: u64,
	view: BTreeMap<String, String>,
	returned_ok: Vec<bool>,
	err: Option<String>,
}

fn token(i: usize) -> String {
	// same size as the prefill values, so that "room for one more entry" means one of these
	format!("t{i}-012345678901234567890123456789012345")
}

struct Setup {
	world: World,
	tree: Tree,
	prefill_entries: usize,
}

/// Number of 1-entry commits after which the NEXT 1-entry commit overflows a 4 KiB arena
/// (forced tower height 1 makes this a constant); measured once on the real store.
fn calibrate_near_full(opt: &OptSet) -> Result<usize, String> {
	static CAL: std::sync::OnceLock<Result<usize, String>> = std::sync::OnceLock::new();
	CAL.get_or_init(|| {
		let mut w = World::new(opt.clone(), &[])?;
		for i in 0..500 {
			w.commit(&[crate::model::Write::set(format!("fill{i:03}").as_bytes(), b"0123456789012345678901234567890123456789")], surrealkv::Durability::Eventual)?.map_err(|e| e)?;
			let s = w.shape().ok_or("no shape")?;
			if !s.immutables.is_empty() {
				return Ok(i); // commit i (0-based) triggered the rotation: i commits fit
			}
		}
		Err("no rotation within 500 commits".into())
	})
	.clone()
}

pub const VLOG_KEYS: [&str; 4] = ["m1", "m2", "n1", "z9"];

/// the current value of key `k` in the C11 scenarios
fn c11_value(history: bool, k: &str) -> Vec<u8> {
	let mut v = vlog_value(k);
	if history {
		v.extend_from_slice(b"-round1");
	}
	v
}

fn vlog_value(k: &str) -> Vec<u8> {
	let mut v = format!("big-{k}-").into_bytes();
	v.resize(150, b'x');
	v
}

fn setup(sc: &Scenario) -> Result<Setup, String> {
	if sc.history_cursor {
		// two tables: first versions of four keys (value-log files 1..), then second versions; the
		// retention of 1 ns makes the first versions droppable by the next compaction
		let opt = OptSet::base("sched-history-index-vlog64-cache0").levels(2).versioned(1, true).with_vlog(0, 64).cache(0);
		let mut w = World::new(opt, &[])?;
		for round in 0..2 {
			for k in VLOG_KEYS {
				let mut v = vlog_value(k);
				v.extend_from_slice(format!("-round{round}").as_bytes());
				w.commit(&[crate::model::Write::set(k.as_bytes(), &v)], surrealkv::Durability::Eventual)?.map_err(|e| e)?;
			}
			w.physical(crate::world::Phys::FlushAll)?;
			std::thread::sleep(std::time::Duration::from_millis(2));
		}
		let tree = w.tree().clone();
		return Ok(Setup {
			world: w,
			tree,
			prefill_entries: 8,
		});
	}
	if sc.vlog {
		// two L0 tables whose values live in vlog files 1..3, plus an immutable memtable with one
		// more large value waiting to be flushed
		let opt = OptSet::base("sched-vlog8-64-cache0").levels(2).with_vlog(8, 64).cache(0);
		let mut w = World::new(opt, &[])?;
		let put = |w: &mut World, k: &str| -> Result<(), String> { w.commit(&[crate::model::Write::set(k.as_bytes(), &vlog_value(k))], surrealkv::Durability::Eventual)?.map_err(|e| e) };
		if sc.vlog_small_tables {
			for k in ["s1", "s2"] {
				w.commit(&[crate::model::Write::set(k.as_bytes(), b"tiny")], surrealkv::Durability::Eventual)?.map_err(|e| e)?;
				w.physical(crate::world::Phys::FlushAll)?;
			}
			for k in VLOG_KEYS {
				put(&mut w, k)?;
			}
			w.physical(crate::world::Phys::Rotate)?;
		} else {
			put(&mut w, "m1")?;
			put(&mut w, "m2")?;
			w.physical(crate::world::Phys::FlushAll)?;
			put(&mut w, "n1")?;
			w.physical(crate::world::Phys::FlushAll)?;
			put(&mut w, "z9")?;
			w.physical(crate::world::Phys::Rotate)?;
		}
		let tree = w.tree().clone();
		return Ok(Setup {
			world: w,
			tree,
			prefill_entries: 4,
		});
	}
	if sc.checkpoint_vs_bg {
		let mut w = World::new(OptSet::base("sched-checkpoint").levels(2).cache(0), &[])?;
		let put = |w: &mut World, k: &str, v: &str| -> Result<(), String> { w.commit(&[crate::model::Write::set(k.as_bytes(), v.as_bytes())], surrealkv::Durability::Eventual)?.map_err(|e| e) };
		put(&mut w, "f1", "old-f1")?;
		put(&mut w, "f2", "value-of-f2")?;
		w.physical(crate::world::Phys::FlushAll)?;
		put(&mut w, "f1", "mid-f1")?;
		w.physical(crate::world::Phys::FlushAll)?;
		put(&mut w, "f3", "newer-value-of-f3")?;
		w.physical(crate::world::Phys::Rotate)?;
		put(&mut w, "f1", "newer-value-of-f1")?;
		let tree = w.tree().clone();
		return Ok(Setup {
			world: w,
			tree,
			prefill_entries: 5,
		});
	}
	if sc.two_flushers {
		let mut w = World::new(OptSet::base("sched-two-flushers").levels(2).cache(0), &[])?;
		for k in ["f1", "f2"] {
			w.commit(&[crate::model::Write::set(k.as_bytes(), format!("value-of-{k}").as_bytes())], surrealkv::Durability::Eventual)?.map_err(|e| e)?;
		}
		w.physical(crate::world::Phys::Rotate)?;
		for k in ["f3", "f1"] {
			w.commit(&[crate::model::Write::set(k.as_bytes(), format!("newer-value-of-{k}").as_bytes())], surrealkv::Durability::Eventual)?.map_err(|e| e)?;
		}
		let tree = w.tree().clone();
		return Ok(Setup {
			world: w,
			tree,
			prefill_entries: 4,
		});
	}
	let mut opt = OptSet::base("sched");
	if sc.near_full {
		opt = opt.memtable_size(4096);
	}
	if sc.stall_low {
		opt.memtable_stall = 2;
		opt.l0_stall = 4;
		opt.level0_max_files = 2;
	}
	let mut prefill = 0;
	if sc.near_full {
		let fit = calibrate_near_full(&OptSet::base("sched-cal").memtable_size(4096))?;
		// leave room for one more small entry: the multi-entry batches overflow mid-way
		prefill = fit.saturating_sub(sc.room);
	}
	let mut w = World::new(opt, &[])?;
	#[allow(unused_mut)]
	let mut prefill = prefill;
	for i in 0..prefill {
		w.commit(&[crate::model::Write::set(format!("fill{i:03}").as_bytes(), b"0123456789012345678901234567890123456789")], surrealkv::Durability::Eventual)?.map_err(|e| e)?;
	}
	if sc.stall_low && sc.near_full {
		// one immutable memtable is already waiting: the next rotation reaches the stall threshold (2),
		// so a committer really has to wait for the background flush
		w.physical(crate::world::Phys::Rotate)?;
		for i in 0..prefill {
			w.commit(&[crate::model::Write::set(format!("more{i:03}").as_bytes(), b"0123456789012345678901234567890123456789")], surrealkv::Durability::Eventual)?.map_err(|e| e)?;
		}
		prefill *= 2;
	}
	if sc.two_pending {
		// a second pending immutable memtable: the store is at the memtable stall limit
		w.physical(crate::world::Phys::Rotate)?;
	}
	if sc.reader {
		// something for the reader to see, already on disk in L0
		w.commit(&[crate::model::Write::set(b"a0", b"base")], surrealkv::Durability::Eventual)?.map_err(|e| e)?;
		w.physical(crate::world::Phys::FlushAll)?;
		// and a newer version that is still in the memtable: the background thread rotates and
		// flushes it while the reader is reading
		w.commit(&[crate::model::Write::set(b"a0", b"mem")], surrealkv::Durability::Eventual)?.map_err(|e| e)?;
	}
	let tree = w.tree().clone();
	Ok(Setup {
		world: w,
		tree,
		prefill_entries: prefill + 2 * usize::from(sc.reader),
	})
}

struct Outcome {
	/// a committer had to wait (stall, permit or completion) / a rotation or flush happened
	awaited: bool,
	shape_changed: bool,
	exec_points: Vec<Point>,
	failure: Option<(String, String)>,
	obs_hash: u64,
	preempted: bool,
	/// a writer sampled stall counts that made it wait
	stalled: bool,
}

/// Run one schedule of one scenario and judge it.
fn run_schedule(sc: &Scenario, prefix: &[usize]) -> Result<Outcome, String> {
	let su = setup(sc)?;
	let n = sc.committers.len();
	let board = Arc::new(Board {
		started: (0..n).map(|_| AtomicBool::new(false)).collect(),
		returned: (0..n).map(|_| AtomicBool::new(false)).collect(),
		ok: (0..n).map(|_| AtomicBool::new(false)).collect(),
		probes: Mutex::new(vec![]),
		reader_obs: Mutex::new(vec![]),
		seen: Mutex::new(vec![BTreeMap::new(); n]),
	});
	let sizes: Vec<usize> = sc.committers.iter().enumerate().map(|(i, k)| k.len() + usize::from(sc.dup_key && i == 2)).collect();
	let mut programs: Vec<Program<Result<(), String>>> = vec![];
	for (i, keys) in sc.committers.iter().enumerate() {
		let tree = su.tree.clone();
		let keys = keys.clone();
		let board = Arc::clone(&board);
		let dup = sc.dup_key && i == 2;
		let fail = if sc.fail_all_but_first && i > 0 { Some("commit.wal") } else { sc.fail.filter(|f| f.1 == i).map(|f| f.0) };
		let rt_handle = su.world.rt.as_ref().unwrap().handle().clone();
		programs.push(Box::new(move |s: &Arc<Sched>, me: usize| -> Result<(), String> {
			let _g = rt_handle.enter();
			board.started[i].store(true, Ordering::SeqCst);
			let mut txn = tree.begin().map_err(|e| format!("begin: {e}"))?;
			let tok = token(i);
			{
				let mut mine = BTreeMap::new();
				for k in &keys {
					let v = txn.get(k.as_bytes()).map_err(|e| format!("get: {e}"))?;
					mine.insert(k.to_string(), v.map(|v| String::from_utf8_lossy(&v).to_string()));
				}
				board.seen.lock().unwrap()[i] = mine;
			}
			if dup {
				txn.set(keys[0].as_bytes(), b"first").map_err(|e| format!("{e}"))?;
				txn.set_savepoint().map_err(|e| format!("{e}"))?;
			}
			for k in &keys {
				txn.set(k.as_bytes(), tok.as_bytes()).map_err(|e| format!("{e}"))?;
			}
			if let Some(fp) = fail {
				surrealkv::verif::arm_fail_point(Some(surrealkv::verif::FailSpec {
					point: fp,
					nth: 1,
					persistent: false,
				}));
			}
			let r = s.block_on(me, txn.commit());
			surrealkv::verif::arm_fail_point(None);
			drop(txn);
			match r {
				Ok(()) => {
					board.ok[i].store(true, Ordering::SeqCst);
					board.returned[i].store(true, Ordering::SeqCst);
					Ok(())
				}
				Err(e) => {
					board.returned[i].store(true, Ordering::SeqCst);
					Err(match e {
						Error::TransactionWriteConflict => "conflict".to_string(),
						Error::TransactionRetry => "retry".to_string(),
						Error::PipelineStall => "pipeline-stall".to_string(),
						e => format!("error: {e}"),
					})
				}
			}
		}));
	}
	let ck_dir = if sc.checkpoint_vs_bg { crate::util::fresh_dir("sched-ck-keep") } else { std::path::PathBuf::new() };
	if sc.checkpoint_vs_bg {
		for which in 0..3 {
			let tree = su.tree.clone();
			let rt_handle = su.world.rt.as_ref().unwrap().handle().clone();
			let ck = ck_dir.clone();
			programs.push(Box::new(move |_s: &Arc<Sched>, _me: usize| -> Result<(), String> {
				let _g = rt_handle.enter();
				match which {
					0 => tree.create_checkpoint(&ck).map(|_| ()).map_err(|e| format!("checkpoint: {e}")),
					1 => tree.verif_compact_round().map_err(|e| format!("compact: {e}")),
					_ => tree.verif_flush_oldest().map(|_| ()).map_err(|e| format!("background flush: {e}")),
				}
			}));
		}
	}
	if sc.two_flushers {
		for which in 0..2 {
			let tree = su.tree.clone();
			let rt_handle = su.world.rt.as_ref().unwrap().handle().clone();
			programs.push(Box::new(move |_s: &Arc<Sched>, _me: usize| -> Result<(), String> {
				let _g = rt_handle.enter();
				if which == 0 {
					tree.verif_flush_oldest().map_err(|e| format!("background flush: {e}"))?;
				} else {
					let d = crate::util::fresh_dir("sched-ck");
					let r = tree.create_checkpoint(&d).map(|_| ()).map_err(|e| format!("checkpoint: {e}"));
					let _ = std::fs::remove_dir_all(&d);
					r?;
				}
				Ok(())
			}));
		}
	}
	if sc.history_cursor {
		let tree = su.tree.clone();
		let rt_handle = su.world.rt.as_ref().unwrap().handle().clone();
		programs.push(Box::new(move |_s: &Arc<Sched>, _me: usize| -> Result<(), String> {
			let _g = rt_handle.enter();
			tree.verif_compact_round().map_err(|e| format!("compact: {e}"))?;
			Ok(())
		}));
		let tree = su.tree.clone();
		let rt_handle = su.world.rt.as_ref().unwrap().handle().clone();
		programs.push(Box::new(move |_s: &Arc<Sched>, _me: usize| -> Result<(), String> {
			use surrealkv::LSMIterator;
			let _g = rt_handle.enter();
			surrealkv::verif::yield_point_public("history:before-begin");
			let txn = tree.begin_with_mode(Mode::ReadOnly).map_err(|e| format!("begin: {e}"))?;
			let mut it = txn.history(crate::world::LO, crate::world::HI).map_err(|e| format!("history: {e}"))?;
			let mut ok = it.seek_first().map_err(|e| format!("history seek_first: {e}"))?;
			let mut n = 0usize;
			while ok {
				surrealkv::verif::yield_point_public("history:between-steps");
				// every entry the cursor stands on must resolve to its value
				let v = it.value().map_err(|e| format!("history cursor, entry {n}: value unreadable: {e}"))?;
				if !v.windows(6).any(|w| w == b"-round") {
					return Err(format!("history cursor, entry {n}: unexpected value of {} bytes", v.len()));
				}
				n += 1;
				ok = it.next().map_err(|e| format!("history next after entry {n}: {e}"))?;
			}
			// the cursor sees the four current versions, plus whichever first versions the
			// compaction had not yet dropped when it was opened
			if n < VLOG_KEYS.len() {
				return Err(format!("history cursor returned {n} entries, at least {} expected", VLOG_KEYS.len()));
			}
			Ok(())
		}));
	}
	if sc.vlog {
		for which in 0..2 {
			let tree = su.tree.clone();
			let rt_handle = su.world.rt.as_ref().unwrap().handle().clone();
			programs.push(Box::new(move |_s: &Arc<Sched>, _me: usize| -> Result<(), String> {
				let _g = rt_handle.enter();
				if which == 0 {
					tree.verif_compact_round().map_err(|e| format!("compact: {e}"))?;
				} else {
					tree.verif_flush_oldest().map_err(|e| format!("flush: {e}"))?;
				}
				Ok(())
			}));
		}
	}
	if sc.bg {
		let tree = su.tree.clone();
		let rt_handle = su.world.rt.as_ref().unwrap().handle().clone();
		let rotate_first = sc.reader;
		let keep_flushing = sc.stall_low && !sc.closer;
		let bg_board = Arc::clone(&board);
		programs.push(Box::new(move |_s: &Arc<Sched>, _me: usize| -> Result<(), String> {
			let _g = rt_handle.enter();
			if rotate_first {
				tree.verif_rotate().map_err(|e| format!("rotate: {e}"))?;
			}
			for _ in 0..2 {
				tree.verif_flush_oldest().map_err(|e| format!("flush: {e}"))?;
			}
			tree.verif_compact_round().map_err(|e| format!("compact: {e}"))?;
			tree.verif_flush_oldest().map_err(|e| format!("flush: {e}"))?;
			if keep_flushing {
				// like the real background flusher: as long as committers are running, every
				// rotated memtable eventually gets flushed (the thread blocks while there is none)
				loop {
					let all_done = || bg_board.returned.iter().all(|r| r.load(Ordering::SeqCst));
					let idle = || tree.verif_stall_counts().0 == 0 && !all_done();
					surrealkv::verif::acquire_point_public("bg:wait-for-work", &idle);
					if tree.verif_stall_counts().0 == 0 {
						break;
					}
					tree.verif_flush_oldest().map_err(|e| format!("flush: {e}"))?;
				}
			}
			Ok(())
		}));
	}
	if sc.closer {
		let tree = su.tree.clone();
		programs.push(Box::new(move |_s: &Arc<Sched>, _me: usize| -> Result<(), String> {
			surrealkv::verif::yield_point_public("closer:before");
			tree.verif_shutdown_signals();
			Ok(())
		}));
	}
	if sc.reader {
		let tree = su.tree.clone();
		let board = Arc::clone(&board);
		let rt_handle = su.world.rt.as_ref().unwrap().handle().clone();
		programs.push(Box::new(move |_s: &Arc<Sched>, _me: usize| -> Result<(), String> {
			let _g = rt_handle.enter();
			let txn = tree.begin_with_mode(Mode::ReadOnly).map_err(|e| format!("begin: {e}"))?;
			for round in 0..3 {
				let g = txn.get(b"a0").map_err(|e| format!("get: {e}"))?;
				let sc = {
					let mut it = txn.range(crate::world::LO, crate::world::HI).map_err(|e| format!("range: {e}"))?;
					crate::world::scan_fwd(&mut it)?
				};
				let a0 = sc.iter().find(|(k, _)| k == b"a0").map(|(_, v)| String::from_utf8_lossy(v).to_string());
				board.reader_obs.lock().unwrap().push(format!("round{round}: get={:?} scan={:?}", g.map(|v| String::from_utf8_lossy(&v).to_string()), a0));
				surrealkv::verif::yield_point_public("reader:between-rounds");
			}
			Ok(())
		}));
	}
	if sc.reader && sc.reader_first {
		let r = programs.pop().unwrap();
		programs.insert(0, r);
	}
	// probe: a fresh read-only transaction at every scheduling point
	let flusher_expect: Vec<(&str, String)> = vec![("f1", "newer-value-of-f1".to_string()), ("f2", "value-of-f2".to_string()), ("f3", "newer-value-of-f3".to_string())];
	let probe: Option<ProbeFn> = if sc.two_flushers || sc.checkpoint_vs_bg {
		let tree = su.tree.clone();
		let board = Arc::clone(&board);
		let rt_handle = su.world.rt.as_ref().unwrap().handle().clone();
		let expect = flusher_expect.clone();
		Some(Box::new(move |step: usize, label: &'static str| {
			let _g = rt_handle.enter();
			// a thread parked inside rotate_memtable holds the memtable lock: reading now would block
			if !tree.verif_active_memtable_readable() {
				return;
			}
			let mut obs = ProbeObs {
				step,
				label,
				visible_seq: 0,
				view: BTreeMap::new(),
				returned_ok: vec![],
				err: None,
			};
			match tree.begin_with_mode(Mode::ReadOnly) {
				Ok(t) => {
					for (k, v) in &expect {
						match t.get(k.as_bytes()) {
							Ok(Some(g)) if g == v.as_bytes() => {}
							Ok(other) => obs.err = Some(format!("get({k}) = {:?}, expected {v}", other.map(|x| String::from_utf8_lossy(&x).to_string()))),
							Err(e) => obs.err = Some(format!("get({k}): {e}")),
						}
					}
					match t.range(crate::world::LO, crate::world::HI).map_err(|e| format!("{e}")).and_then(|mut it| crate::world::scan_fwd(&mut it)) {
						Ok(p) if p.len() == expect.len() => {}
						Ok(p) => obs.err = Some(format!("scan returned {} keys, expected {}", p.len(), expect.len())),
						Err(e) => obs.err = Some(format!("scan: {e}")),
					}
				}
				Err(e) => obs.err = Some(format!("begin: {e}")),
			}
			board.probes.lock().unwrap().push(obs);
		}))
	} else if sc.property == "C11" {
		let history = sc.history_cursor;
		let tree = su.tree.clone();
		let board = Arc::clone(&board);
		let rt_handle = su.world.rt.as_ref().unwrap().handle().clone();
		Some(Box::new(move |step: usize, label: &'static str| {
			let _g = rt_handle.enter();
			// a thread parked inside rotate_memtable holds the memtable lock: reading now would block
			if !tree.verif_active_memtable_readable() {
				return;
			}
			let mut obs = ProbeObs {
				step,
				label,
				visible_seq: 0,
				view: BTreeMap::new(),
				returned_ok: vec![],
				err: None,
			};
			match tree.begin_with_mode(Mode::ReadOnly) {
				Ok(t) => {
					for k in VLOG_KEYS {
						match t.get(k.as_bytes()) {
							Ok(Some(v)) if v == c11_value(history, k) => {}
							Ok(other) => obs.err = Some(format!("get({k}) = {:?}", other.map(|v| String::from_utf8_lossy(&v).chars().take(20).collect::<String>()))),
							Err(e) => obs.err = Some(format!("get({k}): {e}")),
						}
					}
				}
				Err(e) => obs.err = Some(format!("begin: {e}")),
			}
			board.probes.lock().unwrap().push(obs);
		}))
	} else if sc.property == "C05" {
		let tree = su.tree.clone();
		let board = Arc::clone(&board);
		let all_keys: Vec<&'static str> = sc.committers.iter().flatten().copied().collect();
		let rt_handle = su.world.rt.as_ref().unwrap().handle().clone();
		let n = n;
		Some(Box::new(move |step: usize, label: &'static str| {
			let _g = rt_handle.enter();
			// a thread parked inside rotate_memtable holds the memtable lock: reading now would block
			if !tree.verif_active_memtable_readable() {
				return;
			}
			let returned_ok: Vec<bool> = (0..n).map(|i| board.returned[i].load(Ordering::SeqCst) && board.ok[i].load(Ordering::SeqCst)).collect();
			let mut obs = ProbeObs {
				step,
				label,
				visible_seq: 0,
				view: BTreeMap::new(),
				returned_ok,
				err: None,
			};
			match tree.begin_with_mode(Mode::ReadOnly) {
				Ok(t) => {
					obs.visible_seq = t.verif_start_seq();
					for k in &all_keys {
						match t.get(k.as_bytes()) {
							Ok(Some(v)) => {
								obs.view.insert(k.to_string(), String::from_utf8_lossy(&v).to_string());
							}
							Ok(None) => {}
							Err(e) => obs.err = Some(format!("get({k}): {e}")),
						}
					}
				}
				Err(e) => obs.err = Some(format!("begin: {e}")),
			}
			board.probes.lock().unwrap().push(obs);
		}))
	} else {
		None
	};
	crate::schedx::set_round_robin(sc.deviation_bounded);
	let ex: Execution<Result<(), String>> = run(programs, prefix, 4000, probe);
	let preempted = ex.points.iter().any(|p| p.running_enabled && p.chosen != 0);
	let mut out = Outcome {
		awaited: ex.points.iter().any(|p| p.label == "await"),
		shape_changed: su.world.shape().map(|s| !s.immutables.is_empty() || s.levels.iter().any(|l| !l.is_empty())).unwrap_or(false) && !sc.reader && !sc.vlog && !sc.two_flushers && !sc.checkpoint_vs_bg,
		exec_points: ex.points.clone(),
		failure: None,
		obs_hash: 0,
		preempted,
		stalled: ex.points.iter().any(|p| p.label == "stall:counts-sampled"),
	};
	// machinery-level problems first
	if let Some(f) = &ex.failure {
		if f.starts_with("machinery") {
			return Err(f.clone());
		}
		if f.starts_with("real-deadlock") {
			// blocked threads still hold parts of the store: do not touch it again
			out.failure = Some(("real-deadlock".to_string(), f.clone()));
			std::mem::forget(su);
			return Ok(out);
		}
		out.failure = Some((if f.starts_with("deadlock") { "deadlock" } else { "livelock" }.to_string(), f.clone()));
		return Ok(out);
	}
	for (i, p) in ex.panics.iter().enumerate() {
		if let Some(p) = p {
			out.failure = Some((format!("panic:{}", crate::props::norm_msg(p)), format!("thread {i} panicked: {p}")));
			return Ok(out);
		}
	}
	let results: Vec<Result<(), String>> = ex.outputs.iter().map(|o| o.clone().unwrap_or(Err("no output".into()))).collect();
	let mut h = format!("{results:?}");
	// final state through a fresh reader
	let final_view: BTreeMap<String, String> = {
		let _g = su.world.rt.as_ref().unwrap().enter();
		let t = su.tree.begin_with_mode(Mode::ReadOnly).map_err(|e| format!("{e}"))?;
		let mut m = BTreeMap::new();
		for k in sc.committers.iter().flatten() {
			if let Some(v) = t.get(k.as_bytes()).map_err(|e| format!("final get: {e}"))? {
				m.insert(k.to_string(), String::from_utf8_lossy(&v).to_string());
			}
		}
		m
	};
	h.push_str(&format!("{final_view:?}"));
	match sc.property {
		"C05" => {
			let probes = board.probes.lock().unwrap().clone();
			let mut last_v = 0u64;
			let mut last_s: BTreeSet<usize> = BTreeSet::new();
			for p in &probes {
				if let Some(e) = &p.err {
					out.failure = Some(("probe-error".into(), format!("probe at point {} ({}): {e}", p.step, p.label)));
					return Ok(out);
				}
				// all-or-nothing per transaction
				let mut s: BTreeSet<usize> = BTreeSet::new();
				for (i, keys) in sc.committers.iter().enumerate() {
					let present: Vec<bool> = keys.iter().map(|k| p.view.get(*k) == Some(&token(i))).collect();
					if present.iter().all(|x| *x) {
						s.insert(i);
					} else if present.iter().any(|x| *x) {
						out.failure = Some(("partial-visibility".into(), format!("probe at point {} ({}): transaction {i} partially visible: {:?}", p.step, p.label, p.view)));
						return Ok(out);
					}
				}
				// the horizon equals exactly the entries of the visible transactions (a commit whose
				// log write failed has used up its sequence numbers: the horizon may have passed them)
				let expect_v = su.prefill_entries as u64 + s.iter().map(|i| sizes[*i] as u64).sum::<u64>();
				let gap = sc.fail.map(|f| sizes[f.1] as u64).unwrap_or(0);
				if let Some(f) = sc.fail {
					if s.contains(&f.1) {
						out.failure = Some(("failed-commit-visible".into(), format!("probe at point {} ({}): the commit whose log write failed is visible: {:?}", p.step, p.label, p.view)));
						return Ok(out);
					}
				}
				if p.visible_seq != expect_v && p.visible_seq != expect_v + gap {
					out.failure = Some((
						"horizon-mismatch".into(),
						format!("probe at point {} ({}): horizon {} but the visible transactions {:?} account for {} entries (view {:?})", p.step, p.label, p.visible_seq, s, expect_v, p.view),
					));
					return Ok(out);
				}
				if p.visible_seq < last_v || !last_s.is_subset(&s) {
					out.failure = Some(("visibility-went-backwards".into(), format!("probe at point {} ({}): horizon {} after {}, visible {:?} after {:?}", p.step, p.label, p.visible_seq, last_v, s, last_s)));
					return Ok(out);
				}
				// real time: a commit that had returned Ok is visible to a transaction begun afterwards
				for (i, r) in p.returned_ok.iter().enumerate() {
					if *r && !s.contains(&i) {
						out.failure = Some(("returned-commit-invisible".into(), format!("probe at point {} ({}): commit {i} had returned Ok but is not visible: {:?}", p.step, p.label, p.view)));
						return Ok(out);
					}
				}
				last_v = p.visible_seq;
				last_s = s;
			}
			for (i, r) in results.iter().take(n).enumerate() {
				let injected = sc.fail.map(|f| f.1) == Some(i);
				match r {
					Err(e) if !injected => {
						out.failure = Some(("unexpected-commit-error".into(), format!("committer {i}: {e}")));
						return Ok(out);
					}
					Ok(()) if injected => {
						out.failure = Some(("failed-write-acknowledged".into(), format!("committer {i}: commit returned Ok although its log write failed")));
						return Ok(out);
					}
					_ => {}
				}
			}
			h.push_str(&format!("{}", probes.iter().map(|p| p.visible_seq.to_string()).collect::<Vec<_>>().join(",")));
		}
		"C17" => {
			// every call returned (the scheduler would have reported deadlock/livelock otherwise);
			// judge the outcomes: errors are fine only where a cause exists
			for (i, r) in results.iter().take(n).enumerate() {
				match r {
					Ok(()) => {}
					Err(e) if e == "pipeline-stall" && sc.closer => {}
					Err(e) if sc.fail.map(|f| f.1) == Some(i) && e.starts_with("error:") => {}
					Err(e) if sc.fail_all_but_first && i > 0 && e.starts_with("error:") => {}
					Err(e) => {
						out.failure = Some((format!("unexpected-commit-error:{}", crate::props::norm_msg(e).chars().take(40).collect::<String>()), format!("committer {i}: {e}; results {results:?}")));
						return Ok(out);
					}
				}
			}
			for (i, r) in results.iter().enumerate().skip(n) {
				if let Err(e) = r {
					out.failure = Some(("background-error".into(), format!("thread {i}: {e}")));
					return Ok(out);
				}
			}
		}
		"C04" => {
			// conflict rule: overlapping transactions that overlap in time (all begin before any commit
			// can return? no: a later begin may follow an earlier return) - judge with what is certain:
			// (1) a failed commit leaves no trace, (2) every key's final value comes from a transaction
			// that reported Ok, (3) of two transactions that share a key and BOTH report Ok, one must
			// have begun after the other returned - impossible to tell here, so require (3'): if all
			// began before any returned (checked through the board order is not available) - instead
			// use the final state: for a shared key the last writer in the store must be an Ok one and
			// every Ok writer's other keys must be consistent with a serial order.
			for (i, keys) in sc.committers.iter().enumerate() {
				let ok = results[i].is_ok();
				for k in keys {
					let v = final_view.get(*k);
					if !ok && v == Some(&token(i)) {
						out.failure = Some(("failed-commit-left-a-trace".into(), format!("committer {i} returned {:?} but {k}={} in the final state {final_view:?}", results[i], token(i))));
						return Ok(out);
					}
				}
				if let Err(e) = &results[i] {
					let injected = sc.fail.map(|f| f.1) == Some(i);
					if e != "conflict" && !(injected && e.starts_with("error:")) {
						out.failure = Some((format!("unexpected-commit-error:{}", crate::props::norm_msg(e).chars().take(40).collect::<String>()), format!("committer {i}: {e}")));
						return Ok(out);
					}
				}
			}
			// every key must end up with the token of some Ok writer (or be absent if none succeeded)
			let mut by_key: BTreeMap<&str, Vec<usize>> = BTreeMap::new();
			for (i, keys) in sc.committers.iter().enumerate() {
				for k in keys {
					by_key.entry(k).or_default().push(i);
				}
			}
			for (k, writers) in &by_key {
				let oks: Vec<usize> = writers.iter().copied().filter(|i| results[*i].is_ok()).collect();
				let v = final_view.get(*k);
				let fine = match v {
					None => oks.is_empty(),
					Some(t) => oks.iter().any(|i| &token(*i) == t),
				};
				if !fine {
					out.failure = Some(("lost-or-phantom-write".into(), format!("key {k}: final {v:?}, successful writers {oks:?}, results {results:?}")));
					return Ok(out);
				}
			}
			// serial consistency of the winners: for two Ok transactions A, B sharing a key k with
			// final k = token(B): every other key shared by A and B must also hold token(B)
			for a in 0..n {
				for b in 0..n {
					if a == b || results[a].is_err() || results[b].is_err() {
						continue;
					}
					let shared: Vec<&&str> = sc.committers[a].iter().filter(|k| sc.committers[b].contains(k)).collect();
					let b_wins: Vec<bool> = shared.iter().map(|k| final_view.get(**k) == Some(&token(b))).collect();
					let a_wins: Vec<bool> = shared.iter().map(|k| final_view.get(**k) == Some(&token(a))).collect();
					if b_wins.iter().any(|x| *x) && a_wins.iter().any(|x| *x) {
						out.failure = Some(("interleaved-winners".into(), format!("transactions {a} and {b} both committed and each won some of their shared keys: {final_view:?}")));
						return Ok(out);
					}
				}
			}
			// first committer wins: the successful writers of a key form a chain, each having seen
			// its predecessor's version in its snapshot. Two successful writers that saw the SAME
			// version of a shared key lost an update.
			let seen = board.seen.lock().unwrap().clone();
			for (k, writers) in &by_key {
				let oks: Vec<usize> = writers.iter().copied().filter(|i| results[*i].is_ok()).collect();
				for a in &oks {
					for b in &oks {
						if a < b && seen[*a].get(*k) == seen[*b].get(*k) {
							out.failure = Some(("lost-update".into(), format!("transactions {a} and {b} both committed key {k} and both had read {:?} for it (neither saw the other): results {results:?}, final {final_view:?}", seen[*a].get(*k))));
							return Ok(out);
						}
					}
				}
			}
		}
		"C02" => {
			// process crash right after the last thread finished: copy the directory as it is
			// (the store is still open), recover the copy, every acknowledged commit must be there
			for (i, r) in results.iter().enumerate() {
				if let Err(e) = r {
					out.failure = Some(("unexpected-error".into(), format!("thread {i}: {e}")));
					return Ok(out);
				}
			}
			let img = crate::util::fresh_dir("schedimg");
			crate::util::copy_dir(&su.world.dir, &img).map_err(|e| format!("copy: {e}"))?;
			let _ = std::fs::remove_file(img.join("LOCK"));
			let mut w2 = World::attach(su.world.opt.clone(), &img, &[]);
			let rec = w2.open().and_then(|_| w2.dump());
			w2.abandon();
			drop(w2);
			let _ = std::fs::remove_dir_all(&img);
			match rec {
				Err(e) => {
					out.failure = Some(("recovery-fails".into(), format!("crash image taken after all commits returned does not open: {e}")));
					return Ok(out);
				}
				Ok(content) => {
					let have: BTreeMap<String, String> = content.iter().map(|(k, v)| (String::from_utf8_lossy(k).to_string(), String::from_utf8_lossy(v).to_string())).collect();
					for (i, keys) in sc.committers.iter().enumerate() {
						for k in keys {
							if have.get(*k) != Some(&token(i)) {
								out.failure = Some(("acked-commit-lost".into(), format!("after a process crash following the schedule, key {k} of acknowledged commit {i} is {:?}; recovered {} keys", have.get(*k), have.len())));
								return Ok(out);
							}
						}
					}
				}
			}
		}
		"C14" => {
			for (i, r) in results.iter().enumerate() {
				if let Err(e) = r {
					let _ = std::fs::remove_dir_all(&ck_dir);
					out.failure = Some((format!("thread-error:{}", crate::props::norm_msg(e).chars().take(60).collect::<String>()), format!("thread {i}: {e}")));
					return Ok(out);
				}
			}
			let probes = board.probes.lock().unwrap().clone();
			for p in &probes {
				if let Some(e) = &p.err {
					let _ = std::fs::remove_dir_all(&ck_dir);
					out.failure = Some(("answer-changed-during-checkpoint".into(), format!("probe at point {} ({}): {e}", p.step, p.label)));
					return Ok(out);
				}
			}
			// the checkpoint on its own: must open and hold exactly the committed data
			let mut w2 = World::attach(su.world.opt.clone(), &ck_dir, &[]);
			let rec = w2.open().and_then(|_| w2.dump());
			let _ = w2.close();
			drop(w2);
			let _ = std::fs::remove_dir_all(&ck_dir);
			match rec {
				Err(e) => {
					out.failure = Some((format!("checkpoint-does-not-open:{}", crate::props::norm_msg(&e).chars().take(60).collect::<String>()), format!("opening the checkpoint taken during the schedule: {e}")));
					return Ok(out);
				}
				Ok(d) => {
					let got: Vec<(String, String)> = d.iter().map(|(k, v)| (String::from_utf8_lossy(k).to_string(), String::from_utf8_lossy(v).to_string())).collect();
					let want: Vec<(String, String)> = flusher_expect.iter().map(|(k, v)| (k.to_string(), v.clone())).collect();
					if got != want {
						out.failure = Some(("checkpoint-content".into(), format!("checkpoint holds {got:?}, committed {want:?}")));
						return Ok(out);
					}
				}
			}
			h.push_str(&format!("{}", probes.len()));
			out.obs_hash = crate::util::fnv64(h.as_bytes());
			return Ok(out);
		}
		"C06" => {
			for (i, r) in results.iter().enumerate() {
				if let Err(e) = r {
					out.failure = Some((format!("flusher-error:{}", crate::props::norm_msg(e).chars().take(60).collect::<String>()), format!("thread {i}: {e}")));
					return Ok(out);
				}
			}
			let probes = board.probes.lock().unwrap().clone();
			for p in &probes {
				if let Some(e) = &p.err {
					out.failure = Some(("answer-changed-during-flush".into(), format!("probe at point {} ({}): {e}", p.step, p.label)));
					return Ok(out);
				}
			}
			// afterwards: the same answers from the running store and from a clean reopen
			let mut w2 = su.world;
			for round in ["running store", "after close and reopen"] {
				if round != "running store" {
					if let Err(e) = w2.reopen() {
						out.failure = Some((format!("reopen-fails:{}", crate::props::norm_msg(&e).chars().take(60).collect::<String>()), format!("after both flushers finished: {e}")));
						return Ok(out);
					}
				}
				match w2.dump() {
					Ok(d) => {
						let got: Vec<(String, String)> = d.iter().map(|(k, v)| (String::from_utf8_lossy(k).to_string(), String::from_utf8_lossy(v).to_string())).collect();
						let want: Vec<(String, String)> = flusher_expect.iter().map(|(k, v)| (k.to_string(), v.clone())).collect();
						if got != want {
							out.failure = Some(("answer-changed-after-flush".into(), format!("{round}: {got:?}, expected {want:?}")));
							return Ok(out);
						}
					}
					Err(e) => {
						out.failure = Some(("read-error-after-flush".into(), format!("{round}: {e}")));
						return Ok(out);
					}
				}
			}
			let _ = w2.close();
			h.push_str(&format!("{}", probes.len()));
			out.obs_hash = crate::util::fnv64(h.as_bytes());
			return Ok(out);
		}
		"C11" => {
			for (i, r) in results.iter().enumerate() {
				if let Err(e) = r {
					out.failure = Some(("background-error".into(), format!("thread {i}: {e}")));
					return Ok(out);
				}
			}
			let probes = board.probes.lock().unwrap().clone();
			for p in &probes {
				if let Some(e) = &p.err {
					out.failure = Some(("value-unreadable-during-schedule".into(), format!("probe at point {} ({}): {e}", p.step, p.label)));
					return Ok(out);
				}
			}
			// afterwards: every value through a fresh reader, then again after a clean reopen
			{
				let _g = su.world.rt.as_ref().unwrap().enter();
				let t = su.tree.begin_with_mode(Mode::ReadOnly).map_err(|e| format!("{e}"))?;
				for k in VLOG_KEYS {
					match t.get(k.as_bytes()) {
						Ok(Some(v)) if v == c11_value(sc.history_cursor, k) => {}
						Ok(other) => {
							out.failure = Some(("value-wrong-after-schedule".into(), format!("get({k}) = {:?}", other.map(|v| v.len()))));
							return Ok(out);
						}
						Err(e) => {
							out.failure = Some(("value-unreadable-after-schedule".into(), format!("get({k}): {e}")));
							return Ok(out);
						}
					}
				}
			}
			h.push_str(&format!("{}", probes.len()));
		}
		"C01" => {
			let obs = board.reader_obs.lock().unwrap().clone();
			let strip = |s: &String| s.split(": ").nth(1).unwrap_or("").to_string();
			if let Some(first) = obs.first() {
				for o in &obs {
					if strip(o) != strip(first) {
						out.failure = Some(("reader-view-changed".into(), format!("reader observations differ within one transaction: {obs:?}")));
						return Ok(out);
					}
				}
				let f = strip(first);
				// get and scan must agree with each other too
				let same = |v: &str| f.contains(&format!("get=Some(\"{v}\") scan=Some(\"{v}\")"));
				// "base" is never admissible: the newer version "mem" was committed before any thread started
				if !(same("mem") || same(&token(0)) || same(&token(1))) {
					out.failure = Some(("reader-view-inconsistent".into(), format!("reader saw {f}")));
					return Ok(out);
				}
			}
			for (i, r) in results.iter().enumerate() {
				if let Err(e) = r {
					if e != "conflict" {
						out.failure = Some(("unexpected-error".into(), format!("thread {i}: {e}")));
						return Ok(out);
					}
				}
			}
			h.push_str(&format!("{obs:?}"));
		}
		_ => {}
	}
	out.obs_hash = crate::util::fnv64(h.as_bytes());
	drop(su);
	Ok(out)
}

pub struct SchedStats {
	pub awaited: u64,
	pub shape_changed: u64,
	pub executions: u64,
	pub points: u64,
	pub preempted: u64,
	pub stalled: u64,
	pub outcomes: BTreeSet<u64>,
	pub complete: bool,
}

/// Symmetry reduction: among the threads that have not run a single step yet, only the
/// lowest-numbered may be switched to (sound when their programs are identical up to renaming).
fn sym_ok(sc: &Scenario, pts: &[Point], i: usize, alt: usize) -> bool {
	if !sc.symmetric {
		return true;
	}
	let mut started: BTreeSet<usize> = BTreeSet::new();
	for q in &pts[..i] {
		started.insert(q.enabled[q.chosen]);
	}
	// the thread running at point i has started as well
	if pts[i].running_enabled {
		started.insert(pts[i].enabled[0]);
	}
	let t = pts[i].enabled[alt];
	if started.contains(&t) {
		return true;
	}
	pts[i].enabled.iter().filter(|x| !started.contains(x)).min() == Some(&t)
}

/// Explore one scenario with iterative context bounding (bound 0, then 1, ... up to `bound`).
fn explore_scenario(sc: &Scenario, bound: usize, budget: &Budget, found: &mut Vec<(String, String, J)>) -> Result<SchedStats, String> {
	let mut stats = SchedStats {
		awaited: 0,
		shape_changed: 0,
		executions: 0,
		points: 0,
		preempted: 0,
		stalled: 0,
		outcomes: BTreeSet::new(),
		complete: true,
	};
	// a real lock cycle costs a watchdog period per execution and leaves blocked threads behind:
	// stop the scenario at the first one
	let halt = AtomicBool::new(false);
	// root execution gives the first-level branches; subtrees are explored in parallel
	let root = run_schedule(sc, &[])?;
	let mut first: Vec<Vec<usize>> = vec![];
	for (i, p) in root.exec_points.iter().enumerate() {
		let (before, cost) = if sc.deviation_bounded { (root.exec_points[..i].iter().filter(|q| q.chosen != 0).count(), 1) } else { (crate::schedx::preemptions(&root.exec_points, i), usize::from(p.running_enabled)) };
		for alt in 1..p.enabled.len() {
			if before + cost > bound || !sym_ok(sc, &root.exec_points, i, alt) {
				continue;
			}
			let mut c: Vec<usize> = root.exec_points[..i].iter().map(|q| q.chosen).collect();
			c.push(alt);
			first.push(c);
		}
	}
	let note = |o: &Outcome, prefix: &[usize], stats: &mut SchedStats, found: &mut Vec<(String, String, J)>| {
		stats.executions += 1;
		stats.awaited += u64::from(o.awaited);
		stats.shape_changed += u64::from(o.shape_changed);
		stats.points += o.exec_points.len() as u64;
		if o.preempted {
			stats.preempted += 1;
		}
		if o.stalled {
			stats.stalled += 1;
		}
		stats.outcomes.insert(o.obs_hash);
		if let Some((c, t)) = &o.failure {
			if c == "real-deadlock" {
				halt.store(true, Ordering::SeqCst);
			}
			let choices: Vec<usize> = o.exec_points.iter().map(|p| p.chosen).collect();
			let labels: Vec<String> = o.exec_points.iter().filter(|p| p.chosen != 0).map(|p| format!("{}->t{}", p.label, p.enabled[p.chosen])).collect();
			found.push((
				format!("{}:{c}", sc.name),
				format!("[{}] schedule with {} points, deviations {:?} => {t}", sc.name, choices.len(), labels),
				json!({"engine": "schedx", "scenario": sc.name, "choices": choices, "prefix_len": prefix.len()}),
			));
		}
	};
	note(&root, &[], &mut stats, found);
	let results: Mutex<Vec<(SchedStats, Vec<(String, String, J)>, Option<String>)>> = Mutex::new(vec![]);
	first.par_iter().for_each(|start| {
		let mut st = SchedStats {
			awaited: 0,
			shape_changed: 0,
			executions: 0,
			points: 0,
			preempted: 0,
			stalled: 0,
			outcomes: BTreeSet::new(),
			complete: true,
		};
		let mut fnd = vec![];
		let mut err = None;
		// sequential DFS below this first-level branch; branching only beyond the branch's prefix
		let mut stack: Vec<Vec<usize>> = vec![start.clone()];
		while let Some(prefix) = stack.pop() {
			if budget.exhausted() || halt.load(Ordering::SeqCst) {
				st.complete = false;
				break;
			}
			match run_schedule(sc, &prefix) {
				Err(e) => {
					err = Some(e);
					break;
				}
				Ok(o) => {
					note(&o, &prefix, &mut st, &mut fnd);
					let pts = &o.exec_points;
					let mut children = vec![];
					for i in prefix.len()..pts.len() {
						let p = &pts[i];
						let (before, cost) = if sc.deviation_bounded { (pts[..i].iter().filter(|q| q.chosen != 0).count(), 1) } else { (crate::schedx::preemptions(pts, i), usize::from(p.running_enabled)) };
						for alt in 1..p.enabled.len() {
							if before + cost > bound || !sym_ok(sc, pts, i, alt) {
								continue;
							}
							let mut c: Vec<usize> = pts[..i].iter().map(|q| q.chosen).collect();
							c.push(alt);
							children.push(c);
						}
					}
					children.reverse();
					stack.extend(children);
				}
			}
		}
		results.lock().unwrap().push((st, fnd, err));
	});
	for (st, fnd, err) in results.into_inner().unwrap() {
		if let Some(e) = err {
			return Err(e);
		}
		stats.executions += st.executions;
		stats.awaited += st.awaited;
		stats.shape_changed += st.shape_changed;
		stats.points += st.points;
		stats.preempted += st.preempted;
		stats.stalled += st.stalled;
		stats.outcomes.extend(st.outcomes);
		stats.complete &= st.complete;
		found.extend(fnd);
	}
	let _ = explore::<fn(&[usize]) -> Option<Vec<Point>>>;
	Ok(stats)
}

/// Run the schedule part for `property` into `report` (merged with other parts by the caller).
pub fn run_into(report: &mut Report, property: &'static str, tier: Tier, cap_s: f64) -> i32 {
	crate::schedx::install();
	surrealkv::verif::set_forced_height(1);
	let budget = Budget::new(cap_s);
	let scs = scenarios(property, tier);
	let mut found: Vec<(String, String, J)> = vec![];
	let mut completed = vec![];
	let mut total_exec = 0u64;
	let mut total_points = 0u64;
	let mut total_preempted = 0u64;
	let mut outcomes = 0usize;
	let mut all_complete = true;
	for (si, sc) in scs.iter().enumerate() {
		let bound = if tier == Tier::Quick { sc.bounds.0 } else { sc.bounds.1 };
		// every scenario gets an equal share of what is left
		let share = Budget::new(((budget.cap() - budget.elapsed()) / (scs.len() - si) as f64).max(1.0));
		let budget = &share;
		if budget.exhausted() {
			all_complete = false;
			completed.push(format!("{}: not started (time cap)", sc.name));
			continue;
		}
		match explore_scenario(sc, bound, budget, &mut found) {
			Err(e) => {
				eprintln!("machinery: scenario {}: {e}", sc.name);
				return 2;
			}
			Ok(st) => {
				if sc.stall_low && !sc.closer && st.stalled == 0 {
					eprintln!("machinery: scenario {} never stalled a writer (vacuous)", sc.name);
					return 2;
				}
				total_exec += st.executions;
				total_points += st.points;
				total_preempted += st.preempted;
				outcomes += st.outcomes.len();
				all_complete &= st.complete;
				completed.push(format!("{}: {} bound {bound}: {} schedules, {} scheduling points, {} distinct outcomes, {} schedules with a blocked await, {} in which a writer hit the write stall, {} with a rotation/flush{}", sc.name, if sc.deviation_bounded { "deviation (any non-default choice)" } else { "preemption" }, st.executions, st.points, st.outcomes.len(), st.awaited, st.stalled, st.shape_changed, if st.complete { "" } else { " (time cap hit)" }));
			}
		}
	}
	found.sort_by_key(|f| f.1.len());
	let mut seen = BTreeSet::new();
	for (c, t, r) in found {
		let first = seen.insert(c.clone());
		report.violations.push(Violation {
			class: c,
			what: if first { t } else { String::new() },
			replay: if first { r } else { J::Null },
		});
	}
	report.violations.sort_by_key(|v| v.what.is_empty());
	report.add_u("evaluations", total_exec);
	report.add_u("states", total_exec);
	report.add_u("transitions", total_points);
	report.add_u("traces_validated_against_impl", total_exec);
	report.add_u("distinct_nontrivial", total_preempted);
	report.set("schedule_rule", json!("stateless exploration of real OS threads with a baton scheduler at the cfg(surrealkv_verif) yield/acquire points and at pending awaits; canonical enabled order (running thread first, then ascending id); all schedules with at most `bound` preemptions (switching away from a still-enabled thread; switches at blocking points are free); every execution starts from a fresh store; non-trivial = schedules containing at least one preemption"));
	if report.coverage.get("rule").is_none() {
		report.set("rule", report.coverage.get("schedule_rule").cloned().unwrap());
	}
	report.set("schedule_bounds_completed", json!(completed));
	report.set("distinct_outcomes", json!(outcomes));
	if report.coverage.get("samples").is_none() {
		report.set("samples", json!(scs.iter().map(|s| json!({"scenario": s.name, "committers": s.committers, "background_thread": s.bg, "near_full_memtable": s.near_full, "closer": s.closer, "injected_failure": s.fail.map(|f| f.0)})).collect::<Vec<_>>()));
	}
	let prev = report.coverage.get("exhaustive").and_then(|v| v.as_bool()).unwrap_or(true);
	report.set("exhaustive", json!(prev && all_complete));
	report.assume("scheduling points are the hook points listed in MANIFEST.hooks / DESIGN.md plus pending awaits; code between two points runs atomically in the exploration (data races between points and weak-memory effects are outside the claim)");
	report.assume("background work is performed by a managed thread calling the bodies of the flush / compaction tasks directly; the tokio TaskManager wake-up protocol itself is exercised only by the sequential engine (drain, close)");
	0
}

pub fn check(property: &'static str, tier: Tier) -> i32 {
	let mut report = Report::new(property, tier, "model_checking");
	let code = run_into(&mut report, property, tier, if tier == Tier::Quick { 50.0 } else { 900.0 });
	if code != 0 {
		return code;
	}
	report.finish()
}

pub fn replay(property: &str, r: &J) -> i32 {
	crate::schedx::install();
	surrealkv::verif::set_forced_height(1);
	let name = r["scenario"].as_str().unwrap_or("");
	let Some(sc) = scenarios(property, Tier::Thorough).into_iter().find(|s| s.name == name) else {
		eprintln!("machinery: unknown scenario {name}");
		return 2;
	};
	let choices: Vec<usize> = r["choices"].as_array().unwrap().iter().map(|c| c.as_u64().unwrap() as usize).collect();
	println!("replaying {property} scenario {name} with {} choices", choices.len());
	let a = run_schedule(&sc, &choices);
	let b = run_schedule(&sc, &choices);
	match (a, b) {
		(Ok(a), Ok(b)) => {
			if a.failure.as_ref().map(|f| &f.0) != b.failure.as_ref().map(|f| &f.0) || a.obs_hash != b.obs_hash {
				eprintln!("machinery: replay not deterministic: {:?} vs {:?}", a.failure, b.failure);
				return 2;
			}
			match a.failure {
				Some((c, t)) => {
					println!("VIOLATION property={property} replay=<this file>\n  class={}:{c} {t}", sc.name);
					1
				}
				None => {
					println!("replay passed: no violation");
					0
				}
			}
		}
		(Err(e), _) | (_, Err(e)) => {
			eprintln!("machinery: {e}");
			2
		}
	}
}
