//! C15 — a failed commit leaves no trace and does not poison later commits.
//!
//! One workload (commits of both durabilities, an explicit rotation, a flush, a background drain
//! against a tiny memtable) runs in the traced worker once per injected fault: for every class of
//! mutating call (write-like, fsync, rename, create) every call position n = 1..N, with each error
//! kind (EIO, ENOSPC, short write followed by ENOSPC), once and persistently. The worker probes the
//! visible key set after every operation, then dies; the parent reopens the directory it left
//! behind with faults off.
//! Oracle: a commit that returned an error is never visible in the running store; every commit
//! that returned Ok - before or after the fault - is present after the crash + reopen; the store
//! never panics or hangs.

use std::collections::{BTreeMap, BTreeSet};
use std::sync::Mutex;

use rayon::prelude::*;
use serde_json::{json, Value as J};

use crate::crashx::{run_traced_ext, wops_short, Fs, Wop, Workload};
use crate::model::Write;
use crate::props::crash::recover;
use crate::util::{Budget, Report, Tier, Violation};
use crate::world::{OptSet, Phys};

fn workloads() -> Vec<Workload> {
	let base = workload();
	let mut v = vec![base.clone()];
	let mut w2 = base.clone();
	w2.opt = OptSet::base("L2-memtable4k-vlog8-64").memtable_size(4096).with_vlog(8, 64);
	v.push(w2);
	let mut w3 = base.clone();
	w3.opt = OptSet::base("L2-memtable4k-versioned-index").memtable_size(4096).versioned(0, true);
	v.push(w3);
	let mut w4 = base;
	w4.opt = OptSet::base("L3-flush-on-close").levels(3).memtable_size(4096).flush_close(true);
	w4.ops.push(Wop::P(Phys::Reopen));
	w4.ops.push(Wop::W(vec![Write::set(b"k10", b"after-reopen")], true));
	v.push(w4);
	v
}

fn workload() -> Workload {
	let big = |i: usize| -> Vec<u8> { format!("{:0>500}", i).into_bytes() };
	let mut ops = vec![];
	let mut c = 0usize;
	let mut w = |ops: &mut Vec<Wop>, imm: bool| {
		ops.push(Wop::W(vec![Write::set(format!("k{c}").as_bytes(), &big(c))], imm));
		c += 1;
	};
	w(&mut ops, false);
	w(&mut ops, true);
	w(&mut ops, false);
	ops.push(Wop::P(Phys::Rotate));
	w(&mut ops, false);
	ops.push(Wop::P(Phys::FlushOldest));
	w(&mut ops, true);
	w(&mut ops, false);
	w(&mut ops, false); // 4 KiB arena: one of these overflows it (rotation inside apply)
	w(&mut ops, false);
	ops.push(Wop::P(Phys::Drain));
	w(&mut ops, false);
	w(&mut ops, true);
	Workload {
		opt: OptSet::base("L2-memtable4k").memtable_size(4096),
		ops,
		forced_height: 1,
	}
}

#[derive(Clone, Debug)]
struct Fault {
	class: i32,
	class_name: &'static str,
	errno: i32,
	errname: &'static str,
	short: bool,
	persistent: bool,
	nth: i64,
}

impl Fault {
	fn to_json(&self) -> J {
		json!({"nth": self.nth, "class": self.class, "errno": self.errno, "persistent": self.persistent, "short": self.short})
	}
	fn short(&self) -> String {
		format!("{}#{} -> {}{}{}", self.class_name, self.nth, if self.short { "short write then " } else { "" }, self.errname, if self.persistent { " (persistent)" } else { " (once)" })
	}
}

/// Judge one faulty run.
fn judge(wl: &Workload, f: &Fault) -> Result<Option<(String, String)>, String> {
	let tr = match run_traced_ext(wl, None, Some(&f.to_json()), true) {
		Ok(t) => t,
		Err(e) if e.starts_with("worker hang") => return Ok(Some((format!("hang:{}", f.class_name), e))),
		Err(e) if e.starts_with("worker failed") || e.starts_with("worker produced no result") => {
			return Ok(Some((format!("worker-crash:{}:{}", f.class_name, crate::props::norm_msg(&e).chars().take(80).collect::<String>()), e)))
		}
		Err(e) => return Err(e),
	};
	let results = tr.worker_out["results"].as_array().cloned().unwrap_or_default();
	if let Some(e) = tr.worker_out.get("open_error") {
		return Err(format!("initial open failed: {e}"));
	}
	// commit outcomes and probes
	let mut ok_keys: Vec<String> = vec![];
	let mut ok_after_failure: Vec<String> = vec![];
	let mut failed_keys: BTreeSet<String> = BTreeSet::new();
	let mut all_failed: BTreeMap<String, String> = BTreeMap::new();
	let mut any_commit_failed = false;
	let mut any_error_reported = false;
	for r in &results {
		if r.get("ok") == Some(&json!(false)) || r.get("sync") == Some(&json!(false)) || r.get("reopen") == Some(&json!(false)) {
			any_error_reported = true;
		}
		if let Some(i) = r.get("commit").and_then(|c| c.as_u64()) {
			let k = format!("k{i}");
			if r["ok"].as_bool().unwrap_or(false) {
				ok_keys.push(k.clone());
				if any_commit_failed {
					ok_after_failure.push(k);
				}
			} else {
				failed_keys.insert(k.clone());
				all_failed.insert(k, r["err"].as_str().unwrap_or("").to_string());
				any_commit_failed = true;
			}
		}
		if r.get("reopen").is_some() {
			// recovery may legitimately bring back the WAL record of a commit that had failed
			// in the previous session (not judged, see assumptions)
			failed_keys.clear();
		}
		if let Some(pe) = r.get("view").and_then(|v| v.get("probe_error")) {
			if !any_error_reported {
				return Ok(Some((
					format!("silent-fault-read-error:{}", f.class_name),
					format!("no operation reported an error, yet reading the running store fails: {pe}; results {}", serde_json::to_string(&results).unwrap().chars().take(1500).collect::<String>()),
				)));
			}
		}
		if let Some(view) = r.get("view").and_then(|v| v.as_array()) {
			for k in view {
				let k = k.as_str().unwrap_or("");
				if failed_keys.contains(k) {
					return Ok(Some((
						format!("failed-commit-visible:{}", f.class_name),
						format!("key {k} of a commit that returned an error is visible in the running store; results {}", serde_json::to_string(&results).unwrap().chars().take(3000).collect::<String>()),
					)));
				}
			}
			// acknowledged commits must stay visible in the running store too
			let seen: BTreeSet<&str> = view.iter().filter_map(|k| k.as_str()).collect();
			for k in &ok_keys {
				if !seen.contains(k.as_str()) {
					return Ok(Some((format!("acked-commit-invisible:{}", f.class_name), format!("key {k} of an acknowledged commit is missing from a later read in the running store"))));
				}
			}
		}
	}
	// What must survive the crash: if the fault was never reported to the application, everything
	// acknowledged; otherwise (the statement's wording) every commit acknowledged after the first
	// failed commit. Commits acknowledged before a reported I/O failure are not judged here: an
	// fsync/write error leaves their durability indeterminate, and the fault-free case is C02's.
	let required: Vec<String> = if !any_error_reported { ok_keys.clone() } else { ok_after_failure.clone() };
	// crash (the worker died without closing) and reopen with faults off
	let fs = Fs::from_dir(&tr.final_dir);
	if std::env::var("VERIF_DEBUG").is_ok() {
		for (i, e) in tr.trace.iter().enumerate() {
			eprintln!("  ev{i}: {}", e.short());
		}
		for (p, o) in &fs.names {
			eprintln!("  final file {p}: {} bytes", fs.data.get(o).map(|d| d.len()).unwrap_or(0));
		}
	}
	let rec = recover(&fs, &wl.opt, false);
	if let Some(p) = rec.panic {
		return Ok(Some((format!("recovery-panic-after-fault:{}", f.class_name), p)));
	}
	match rec.open1 {
		Err(e) => {
			if required.is_empty() {
				UNJUDGED.fetch_add(1, std::sync::atomic::Ordering::Relaxed);
				return Ok(None);
			}
			let kind = if any_error_reported { "acked-after-failure-unrecoverable" } else { "silent-fault-unrecoverable" };
			Ok(Some((format!("{kind}:{}:{}", f.class_name, crate::props::norm_msg(&e).chars().take(60).collect::<String>()), format!("reopen after the faulty run: {e}; must recover {required:?}; worker results {}", serde_json::to_string(&results).unwrap().chars().take(3000).collect::<String>()))))
		}
		Ok(content) => {
			let have: BTreeSet<String> = content.iter().map(|(k, _)| String::from_utf8_lossy(k).to_string()).collect();
			for k in &required {
				if !have.contains(k) {
					let kind = if any_error_reported { "acked-after-failure-lost" } else { "silent-fault-acked-lost" };
					return Ok(Some((
						format!("{kind}:{}", f.class_name),
						format!("acknowledged key {k} missing after crash+reopen; recovered {:?}; commit results {:?}", have, results.iter().filter_map(|r| r.get("commit").map(|c| format!("{}:{}", c, r["ok"]))).collect::<Vec<_>>()),
					)));
				}
			}
			// "none of the transaction's writes becomes visible to any reader": also not to the readers
			// of the recovered store. Class = the stage at which the commit had failed.
			for (k, err) in &all_failed {
				if have.contains(k) {
					let stage = if err.contains("WAL error") {
						match f.class_name {
							"write" => "wal-append-error".to_string(),
							"fsync" => "wal-sync-error".to_string(),
							c => format!("wal-error-on-{c}"),
						}
					} else if err.starts_with("Commit failed") {
						"apply-error-after-wal-append".to_string()
					} else {
						format!("other:{}", crate::props::norm_msg(err).chars().take(40).collect::<String>())
					};
					return Ok(Some((
						format!("failed-commit-recovered:{stage}"),
						format!("key {k} of a commit that returned an error ({err}) is present after crash+reopen; commit results {:?}", results.iter().filter_map(|r| r.get("commit").map(|c| format!("{}:{}", c, r["ok"]))).collect::<Vec<_>>()),
					)));
				}
			}
			Ok(None)
		}
	}
}

/// runs whose recovery failed after a *reported* I/O failure with no commit acknowledged afterwards
static UNJUDGED: std::sync::atomic::AtomicU64 = std::sync::atomic::AtomicU64::new(0);

pub fn check(tier: Tier) -> i32 {
	let mut report = Report::new("C15", tier, "fault_enumeration");
	let budget = Budget::new(if tier == Tier::Quick { 50.0 } else { 600.0 });
	if !std::path::Path::new(crate::crashx::SHIM).exists() {
		eprintln!("machinery: {} missing", crate::crashx::SHIM);
		return 2;
	}
	let mut total_done = 0u64;
	let mut total_planned = 0usize;
	let mut per_class: BTreeMap<String, u64> = BTreeMap::new();
	let mut seen = BTreeSet::new();
	let mut all_counts = vec![];
	let mut samples = vec![];
	for (wi, wl) in workloads().into_iter().enumerate() {
		match check_one(&mut report, tier, &budget, wi, &wl, &mut per_class, &mut seen) {
			Err(code) => return code,
			Ok((done, planned, counts, sample)) => {
				total_done += done;
				total_planned += planned;
				all_counts.push(json!({"workload": wl.opt.name, "calls": counts}));
				samples.push(json!(sample));
			}
		}
	}
	// --- part 2: commits that fail while applying (batch larger than the memtable arena) ---
	let mut apply_runs = 0u64;
	let mut apply_failed_batches = 0u64;
	{
		use rayon::prelude::*;
		surrealkv::verif::set_forced_height(1);
		let scs = crate::props::c15b::scenarios(tier);
		let results: Vec<(usize, Result<(Option<(String, String)>, bool), String>)> = scs.par_iter().enumerate().map(|(i, sc)| (i, crate::props::c15b::run(sc))).collect();
		for (i, r) in results {
			apply_runs += 1;
			match r {
				Err(e) => {
					eprintln!("machinery: apply-failure scenario {}: {e}", scs[i].short());
					return 2;
				}
				Ok((v, failed)) => {
					if failed {
						apply_failed_batches += 1;
					}
					if let Some((class, text)) = v {
						let class = format!("apply-failure:{class}");
						*per_class.entry(class.clone()).or_default() += 1;
						let first = seen.insert(class.clone());
						report.violations.push(crate::util::Violation {
							class,
							what: if first { format!("{} => {text}", scs[i].short()) } else { String::new() },
							replay: if first { scs[i].to_json() } else { J::Null },
						});
					}
				}
			}
		}
		if apply_failed_batches == 0 || apply_failed_batches == apply_runs {
			eprintln!("machinery: apply-failure part is vacuous ({apply_failed_batches} of {apply_runs} batches failed; both outcomes are needed)");
			return 2;
		}
		total_done += apply_runs;
		total_planned += scs.len();
	}
	report.set("apply_failure_scenarios", json!(apply_runs));
	report.set("apply_failure_scenarios_in_which_the_batch_failed", json!(apply_failed_batches));
	report.violations.sort_by_key(|v| v.what.is_empty());
	report.set("evaluations", json!(total_done));
	report.set("distinct_nontrivial", json!(total_done));
	report.set("rule", json!("4 workloads (10 commits of 500-byte values with both durabilities, rotate, flush-oldest, drain; 4 KiB memtable so a rotation also happens inside apply; option sets plain / vlog / versioned index / flush-on-close with reopen) x every position n of every call class {write-like: EIO, ENOSPC, short write then ENOSPC; fsync: EIO; rename: EIO; create: ENOSPC} x {once, persistent}; each run is distinct; non-trivial = runs in which the armed position lies within the fault-free call count (all of them)"));
	report.set("samples", json!(samples));
	report.set("call_counts_fault_free", json!(all_counts));
	report.set("fault_runs_planned", json!(total_planned));
	report.set("exhaustive", json!(total_done as usize == total_planned));
	report.set("failures_per_class", json!(per_class));
	report.set("unjudged_unrecoverable_after_reported_failure", json!(UNJUDGED.load(std::sync::atomic::Ordering::Relaxed)));
	report.assume("after a fault that WAS reported to the application (a commit, flush, sync or reopen returned an error) only commits acknowledged after the first failed commit are required to survive (the statement's wording); if the fault was never reported, everything acknowledged must be readable and must survive");
	report.assume("faults are injected at the libc boundary by the LD_PRELOAD shim after the initial open; a failed commit must be invisible in the running store AND in the store recovered after the crash (readers of the recovered store are readers too); within one workload a clean reopen clears the list of failed keys for the running-store check");
	report.finish()
}

#[allow(clippy::type_complexity)]
fn check_one(
	report: &mut Report,
	tier: Tier,
	budget: &Budget,
	wi: usize,
	wl: &Workload,
	per_class: &mut BTreeMap<String, u64>,
	seen: &mut BTreeSet<String>,
) -> Result<(u64, usize, BTreeMap<&'static str, i64>, String), i32> {
	let wl = wl.clone();
	// count the calls of each class in a fault-free run (a fault that never fires still counts)
	let classes: [(i32, &'static str); 4] = [(1, "write"), (2, "fsync"), (4, "rename"), (8, "create")];
	let mut counts: BTreeMap<&'static str, i64> = BTreeMap::new();
	for (c, name) in classes {
		let probe = json!({"nth": 1_000_000_000i64, "class": c, "errno": 5, "persistent": false, "short": false});
		match run_traced_ext(&wl, None, Some(&probe), true) {
			Ok(t) => {
				counts.insert(name, t.worker_out["class_count"].as_i64().unwrap_or(0));
			}
			Err(e) => {
				eprintln!("machinery: fault-free run failed: {e}");
				return Err(2);
			}
		}
	}
	let mut faults = vec![];
	for (c, name) in classes {
		let n = counts[name];
		let kinds: Vec<(i32, &'static str, bool)> = match c {
			1 => vec![(5, "EIO", false), (28, "ENOSPC", false), (28, "ENOSPC", true)],
			2 => vec![(5, "EIO", false)],
			4 => vec![(5, "EIO", false)],
			_ => vec![(28, "ENOSPC", false)],
		};
		for nth in 1..=n {
			for (errno, errname, short) in &kinds {
				for persistent in [false, true] {
					let _ = tier;
					faults.push(Fault {
						class: c,
						class_name: name,
						errno: *errno,
						errname,
						short: *short,
						persistent,
						nth,
					});
				}
			}
		}
	}
	// simplest first: once before persistent, plain errors before short writes
	faults.sort_by_key(|f| (f.persistent, f.short, f.class, f.nth));
	let found: Mutex<Vec<(usize, String, String)>> = Mutex::new(vec![]);
	let done = std::sync::atomic::AtomicU64::new(0);
	let fired = std::sync::atomic::AtomicU64::new(0);
	let machinery: Mutex<Option<String>> = Mutex::new(None);
	faults.par_iter().enumerate().for_each(|(i, f)| {
		if budget.exhausted() {
			return;
		}
		match judge(&wl, f) {
			Err(e) => *machinery.lock().unwrap() = Some(format!("{}: {e}", f.short())),
			Ok(r) => {
				done.fetch_add(1, std::sync::atomic::Ordering::Relaxed);
				fired.fetch_add(1, std::sync::atomic::Ordering::Relaxed);
				if let Some((c, t)) = r {
					found.lock().unwrap().push((i, c, t));
				}
			}
		}
	});
	if let Some(e) = machinery.into_inner().unwrap() {
		eprintln!("machinery: {e}");
		return Err(2);
	}
	let mut found = found.into_inner().unwrap();
	found.sort_by_key(|f| f.0);
	for (i, c, t) in found {
		*per_class.entry(c.clone()).or_default() += 1;
		let first = seen.insert(c.clone());
		report.violations.push(Violation {
			class: c,
			what: if first { format!("[{}: {}] fault {} => {}", wl.opt.name, wops_short(&wl.ops).chars().take(160).collect::<String>(), faults[i].short(), t) } else { String::new() },
			replay: if first { json!({"engine": "c15", "workload": wi, "fault": faults[i].to_json(), "class_name": faults[i].class_name}) } else { J::Null },
		});
	}
	let d = done.load(std::sync::atomic::Ordering::Relaxed);
	let _ = fired;
	let sample = format!("[{}] {}", wl.opt.name, faults[faults.len() / 2].short());
	Ok((d, faults.len(), counts, sample))
}

pub fn replay(r: &J) -> i32 {
	if r["engine"] == "c15-apply" {
		surrealkv::verif::set_forced_height(1);
		let sc = crate::props::c15b::Scenario::from_json(r);
		println!("replaying C15 apply-failure scenario {}", sc.short());
		let a = crate::props::c15b::run(&sc);
		let b = crate::props::c15b::run(&sc);
		return match (a, b) {
			(Ok((a, _)), Ok((b, _))) => {
				if a.as_ref().map(|x| &x.0) != b.as_ref().map(|x| &x.0) {
					eprintln!("machinery: replay not deterministic");
					return 2;
				}
				match a {
					Some((c, t)) => {
						println!("VIOLATION property=C15 replay=<this file>\n  class=apply-failure:{c} {t}");
						1
					}
					None => {
						println!("replay passed: no violation");
						0
					}
				}
			}
			(Err(e), _) | (_, Err(e)) => {
				eprintln!("machinery: {e}");
				2
			}
		};
	}
	let wl = workloads()[r["workload"].as_u64().unwrap_or(0) as usize].clone();
	let f = Fault {
		class: r["fault"]["class"].as_i64().unwrap() as i32,
		class_name: match r["fault"]["class"].as_i64().unwrap() {
			1 => "write",
			2 => "fsync",
			4 => "rename",
			_ => "create",
		},
		errno: r["fault"]["errno"].as_i64().unwrap() as i32,
		errname: "errno",
		short: r["fault"]["short"].as_bool().unwrap_or(false),
		persistent: r["fault"]["persistent"].as_bool().unwrap_or(false),
		nth: r["fault"]["nth"].as_i64().unwrap(),
	};
	println!("replaying C15 fault {}", f.short());
	let a = judge(&wl, &f);
	let b = judge(&wl, &f);
	match (a, b) {
		(Ok(a), Ok(b)) => {
			if a.as_ref().map(|x| &x.0) != b.as_ref().map(|x| &x.0) {
				eprintln!("machinery: replay not deterministic: {a:?} vs {b:?}");
				return 2;
			}
			match a {
				Some((c, t)) => {
					println!("VIOLATION property=C15 replay=<this file>\n  class={c} {}", t.chars().take(4000).collect::<String>());
					1
				}
				None => {
					println!("replay passed: no violation");
					0
				}
			}
		}
		(Err(e), _) | (_, Err(e)) => {
			eprintln!("machinery: {e}");
			2
		}
	}
}
