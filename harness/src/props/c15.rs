//! C15 — a failed commit leaves no trace and does not poison later commits.
//!
//! One workload (commits of both durabilities, an explicit rotation, a flush, a background drain
//! against a tiny memtable) runs in the traced worker once per injected fault: for every class of
//! mutating call (write-like, fsync, rename, create) every call position n = 1..N, with each error
//! kind (EIO, ENOSPC, short write followed by ENOSPC), once and persistently. The worker probes the
//! visible key set after every operation, then dies; the parent reopens the directory it left
//! behind with faults off.
//! Oracle: a commit that returned an error is never visible in the running store; every commit
//! that returned Ok - before or after the fault - is present after the crash + reopen; the store
//! never panics or hangs.

use std::collections::{BTreeMap, BTreeSet};
use std::sync::Mutex;

use rayon::prelude::*;
use serde_json::{json, Value as J};

use crate::crashx::{run_traced_ext, wops_short, Fs, Wop, Workload};
use crate::model::Write;
use crate::props::crash::recover;
use crate::util::{Budget, Report, Tier, Violation};
use crate::world::{OptSet, Phys};

fn workloads() -> Vec<Workload> {
	workloads_for(true)
}

fn workloads_for(thorough: bool) -> Vec<Workload> {
	let base = workload();
	let mut v = vec![base.clone()];
	let mut w2 = base.clone();
	w2.opt = OptSet::base("L2-memtable4k-vlog8-64").memtable_size(4096).with_vlog(8, 64);
	v.push(w2);
	let mut w3 = base.clone();
	w3.opt = OptSet::base("L2-memtable4k-versioned-index").memtable_size(4096).versioned(0, true);
	v.push(w3);
	let mut w4 = base;
	w4.opt = OptSet::base("L3-flush-on-close").levels(3).memtable_size(4096).flush_close(true);
	w4.ops.push(Wop::P(Phys::Reopen));
	w4.ops.push(Wop::W(vec![Write::set(b"k10", b"after-reopen")], true));
	v.push(w4);
	// overwrites, deletes and multi-key transactions on three keys (value-level judging)
	let big = |tag: &str| -> Vec<u8> { format!("{tag:_>500}").into_bytes() };
	let mut ops = vec![];
	ops.push(Wop::W(vec![Write::set(b"a", &big("a1")), Write::set(b"b", &big("b1"))], false));
	ops.push(Wop::W(vec![Write::set(b"a", &big("a2"))], true));
	ops.push(Wop::W(vec![Write::new(crate::model::Kind::Delete, b"b", b""), Write::set(b"c", &big("c1"))], false));
	ops.push(Wop::P(Phys::Rotate));
	ops.push(Wop::W(vec![Write::set(b"b", &big("b2"))], false));
	ops.push(Wop::P(Phys::FlushOldest));
	ops.push(Wop::W(vec![Write::set(b"a", &big("a3")), Write::set(b"c", &big("c2"))], true));
	ops.push(Wop::W(vec![Write::new(crate::model::Kind::Delete, b"a", b"")], false));
	ops.push(Wop::W(vec![Write::set(b"a", &big("a4")), Write::set(b"b", &big("b3")), Write::set(b"c", &big("c3"))], false));
	ops.push(Wop::P(Phys::Drain));
	ops.push(Wop::W(vec![Write::set(b"b", &big("b4"))], true));
	ops.push(Wop::P(Phys::Compact));
	ops.push(Wop::W(vec![Write::set(b"c", &big("c4"))], false));
	v.push(Workload {
		opt: OptSet::base("L2-memtable4k-overwrites").memtable_size(4096),
		ops: ops.clone(),
		forced_height: 1,
	});
	let mut w6 = Workload {
		opt: OptSet::base("L2-memtable4k-overwrites-reopen").memtable_size(4096),
		ops,
		forced_height: 1,
	};
	w6.ops.insert(6, Wop::P(Phys::Reopen));
	v.push(w6.clone());
	// values larger than any internal write buffer (8 KiB): a short write tears the record itself
	{
		let huge = |tag: &str| -> Vec<u8> { format!("{tag:#>8192}").into_bytes() };
		let mut ops = vec![];
		for (i, imm) in [false, true, false, false, true, false].iter().enumerate() {
			ops.push(Wop::W(vec![Write::set(format!("h{i}").as_bytes(), &huge(&format!("h{i}")))], *imm));
		}
		v.push(Workload {
			opt: OptSet::base("L2-memtable64k-8k-values").memtable_size(65536),
			ops,
			forced_height: 1,
		});
	}
	// thorough tier only (appended, so that workload indices of the quick tier stay stable):
	// the overwrite workload on the other storage configurations
	if thorough {
		for (name, opt) in [
			("L2-memtable4k-overwrites-vlog8-64", OptSet::base("L2-memtable4k-overwrites-vlog8-64").memtable_size(4096).with_vlog(8, 64)),
			("L2-memtable4k-overwrites-versioned-index", OptSet::base("L2-memtable4k-overwrites-versioned-index").memtable_size(4096).versioned(0, true)),
			("L3-memtable4k-overwrites-flush-on-close", OptSet::base("L3-memtable4k-overwrites-flush-on-close").levels(3).memtable_size(4096).flush_close(true)),
			("L2-memtable4k-overwrites-versioned-vlog", OptSet::base("L2-memtable4k-overwrites-versioned-vlog").memtable_size(4096).versioned(0, false).with_vlog(0, 64)),
		] {
			let _ = name;
			let mut w = w6.clone();
			w.opt = opt;
			v.push(w);
		}
		// every short operation list (length <= 3) of the crash engine's alphabet: commits of both
		// durabilities, delete, flush, compaction, rotate, drain, reopen, synced log flush
		for ops in crate::props::crash::short_workloads(3) {
			v.push(Workload {
				opt: OptSet::base("L2-short-lists"),
				ops,
				forced_height: 1,
			});
		}
	}
	v
}

fn workload() -> Workload {
	let big = |i: usize| -> Vec<u8> { format!("{:0>500}", i).into_bytes() };
	let mut ops = vec![];
	let mut c = 0usize;
	let mut w = |ops: &mut Vec<Wop>, imm: bool| {
		ops.push(Wop::W(vec![Write::set(format!("k{c}").as_bytes(), &big(c))], imm));
		c += 1;
	};
	w(&mut ops, false);
	w(&mut ops, true);
	w(&mut ops, false);
	ops.push(Wop::P(Phys::Rotate));
	w(&mut ops, false);
	ops.push(Wop::P(Phys::FlushOldest));
	w(&mut ops, true);
	w(&mut ops, false);
	w(&mut ops, false); // 4 KiB arena: one of these overflows it (rotation inside apply)
	w(&mut ops, false);
	ops.push(Wop::P(Phys::Drain));
	w(&mut ops, false);
	w(&mut ops, true);
	Workload {
		opt: OptSet::base("L2-memtable4k").memtable_size(4096),
		ops,
		forced_height: 1,
	}
}

#[derive(Clone, Debug)]
struct Fault {
	class: i32,
	class_name: &'static str,
	errno: i32,
	errname: &'static str,
	short: bool,
	persistent: bool,
	nth: i64,
}

impl Fault {
	fn to_json(&self) -> J {
		json!({"nth": self.nth, "class": self.class, "errno": self.errno, "persistent": self.persistent, "short": self.short})
	}
	fn short(&self) -> String {
		format!("{}#{} -> {}{}{}", self.class_name, self.nth, if self.short { "short write then " } else { "" }, self.errname, if self.persistent { " (persistent)" } else { " (once)" })
	}
}

/// Value hash as the worker prints it.
fn vh(v: &[u8]) -> String {
	format!("{:016x}", crate::util::fnv64(v))
}

/// The stage at which a commit failed, from its error text and the injected call class.
fn failure_stage(err: &str, f: &Fault) -> String {
	if err.contains("WAL error") {
		match f.class_name {
			"write" => "wal-append-error".to_string(),
			"fsync" => "wal-sync-error".to_string(),
			c => format!("wal-error-on-{c}"),
		}
	} else if err.starts_with("Commit failed") {
		"apply-error-after-wal-append".to_string()
	} else {
		format!("other:{}", crate::props::norm_msg(err).chars().take(40).collect::<String>())
	}
}

/// Judge one faulty run against a value-level model of the acknowledged commits.
fn judge(wl: &Workload, f: &Fault) -> Result<Option<(String, String)>, String> {
	let tr = match run_traced_ext(wl, None, Some(&f.to_json()), true) {
		Ok(t) => t,
		Err(e) if e.starts_with("worker hang") => return Ok(Some((format!("hang:{}", f.class_name), e))),
		Err(e) if e.starts_with("worker failed") || e.starts_with("worker produced no result") => {
			return Ok(Some((format!("worker-crash:{}:{}", f.class_name, crate::props::norm_msg(&e).chars().take(80).collect::<String>()), e)))
		}
		Err(e) => return Err(e),
	};
	let results = tr.worker_out["results"].as_array().cloned().unwrap_or_default();
	if let Some(e) = tr.worker_out.get("open_error") {
		return Err(format!("initial open failed: {e}"));
	}
	let commits: Vec<&Vec<Write>> = wl.ops.iter().filter_map(|o| if let Wop::W(ws, _) = o { Some(ws) } else { None }).collect();
	let summary = || -> String { format!("{:?}", results.iter().filter_map(|r| r.get("commit").map(|c| format!("{}:{}", c, r["ok"]))).collect::<Vec<_>>()) };
	// acknowledged state: key -> value hash (absent = deleted / never written)
	let mut model: BTreeMap<String, String> = BTreeMap::new();
	// every write in commit order: (key, Some(hash) | None for a delete, acknowledged?, stage if failed, commit index)
	let mut writes: Vec<(String, Option<String>, bool, String, usize)> = vec![];
	// writes of failed commits that must stay invisible in the running store
	let mut failed_live: Vec<(String, Option<String>, String)> = vec![];
	let mut any_error_reported = false;
	let mut first_failed_commit: Option<usize> = None;
	for r in &results {
		if r.get("ok") == Some(&json!(false)) || r.get("sync") == Some(&json!(false)) || r.get("reopen") == Some(&json!(false)) {
			any_error_reported = true;
		}
		if let Some(ci) = r.get("commit").and_then(|c| c.as_u64()) {
			let ci = ci as usize;
			let ok = r["ok"].as_bool().unwrap_or(false);
			let stage = if ok { String::new() } else { failure_stage(r["err"].as_str().unwrap_or(""), f) };
			for w in commits[ci] {
				let k = String::from_utf8_lossy(&w.key).to_string();
				let v = if w.kind.is_tombstone() { None } else { Some(vh(&w.value)) };
				writes.push((k.clone(), v.clone(), ok, stage.clone(), ci));
				if ok {
					match &v {
						Some(h) => {
							model.insert(k.clone(), h.clone());
						}
						None => {
							model.remove(&k);
						}
					}
					// a later acknowledged write of the key shadows an earlier failed one
					failed_live.retain(|(fk, _, _)| fk != &k);
				} else {
					failed_live.push((k, v, stage.clone()));
				}
			}
			if !ok && first_failed_commit.is_none() {
				first_failed_commit = Some(ci);
			}
		}
		if let Some(pe) = r.get("view").and_then(|v| v.get("probe_error")) {
			if !any_error_reported {
				return Ok(Some((
					format!("silent-fault-read-error:{}", f.class_name),
					format!("no operation reported an error, yet reading the running store fails: {pe}; results {}", serde_json::to_string(&results).unwrap().chars().take(1500).collect::<String>()),
				)));
			}
		}
		if let Some(view) = r.get("view").and_then(|v| v.as_array()) {
			let seen: BTreeMap<String, String> = view.iter().filter_map(|e| Some((e.get(0)?.as_str()?.to_string(), e.get(1)?.as_str()?.to_string()))).collect();
			let after_reopen = r.get("reopen").is_some();
			let keys: BTreeSet<&String> = model.keys().chain(seen.keys()).collect();
			for k in keys {
				if seen.get(k) == model.get(k) {
					continue;
				}
				// which write explains what is seen?
				if let Some((_, _, stage)) = failed_live.iter().find(|(fk, fv, _)| fk == k && fv.as_ref() == seen.get(k)) {
					let class = if after_reopen { format!("failed-commit-recovered:{stage}") } else { format!("failed-commit-visible:{}", f.class_name) };
					let mut at = r.clone();
					if let Some(o) = at.as_object_mut() {
						o.remove("view");
					}
					return Ok(Some((class, format!("key {k}: right after {at} the running store shows the write of a commit that returned an error ({}); commits {}", if after_reopen { "after a clean reopen" } else { "same session" }, summary()))));
				}
				return Ok(Some((
					format!("acked-state-wrong-in-running-store:{}", f.class_name),
					format!("key {k}: running store shows {:?}, acknowledged state says {:?}; commits {}", seen.get(k), model.get(k), summary()),
				)));
			}
		}
	}
	// crash (the worker died without closing) and reopen with faults off
	let fs = Fs::from_dir(&tr.final_dir);
	if std::env::var("VERIF_DEBUG").is_ok() {
		for (i, e) in tr.trace.iter().enumerate() {
			eprintln!("  ev{i}: {}", e.short());
		}
		for (p, o) in &fs.names {
			eprintln!("  final file {p}: {} bytes", fs.data.get(o).map(|d| d.len()).unwrap_or(0));
		}
	}
	// What must survive the crash: if the fault was never reported to the application, everything
	// acknowledged; otherwise (the statement's wording) every commit acknowledged after the first
	// failed commit. Commits acknowledged before a reported I/O failure are not judged here.
	let required_from: Option<usize> = if !any_error_reported { Some(0) } else { first_failed_commit.map(|c| c + 1) };
	let any_required = required_from.is_some_and(|from| writes.iter().any(|w| w.2 && w.4 >= from));
	let rec = recover(&fs, &wl.opt, false);
	if let Some(p) = rec.panic {
		return Ok(Some((format!("recovery-panic-after-fault:{}", f.class_name), p)));
	}
	match rec.open1 {
		Err(e) => {
			if !any_required {
				UNJUDGED.fetch_add(1, std::sync::atomic::Ordering::Relaxed);
				return Ok(None);
			}
			let kind = if any_error_reported { "acked-after-failure-unrecoverable" } else { "silent-fault-unrecoverable" };
			Ok(Some((format!("{kind}:{}:{}", f.class_name, crate::props::norm_msg(&e).chars().take(60).collect::<String>()), format!("reopen after the faulty run: {e}; commits {}", summary()))))
		}
		Ok(content) => {
			let have: BTreeMap<String, String> = content.iter().map(|(k, v)| (String::from_utf8_lossy(k).to_string(), vh(v))).collect();
			let keys: BTreeSet<String> = writes.iter().map(|w| w.0.clone()).chain(have.keys().cloned()).collect();
			for k in &keys {
				let ws: Vec<&(String, Option<String>, bool, String, usize)> = writes.iter().filter(|w| &w.0 == k).collect();
				// last write of the key that is required to survive
				let last_required = required_from.and_then(|from| ws.iter().rposition(|w| w.2 && w.4 >= from));
				let got = have.get(k);
				// admissible explanations: an acknowledged write at or after the last required one;
				// with no required write, any acknowledged write or "never written"
				let start = last_required.unwrap_or(0);
				let explained_by_acked = ws[start..].iter().any(|w| w.2 && w.1.as_ref() == got) || (last_required.is_none() && got.is_none());
				if explained_by_acked {
					continue;
				}
				if let Some(w) = ws[start..].iter().find(|w| !w.2 && w.1.as_ref() == got) {
					return Ok(Some((
						format!("failed-commit-recovered:{}", w.3),
						format!("key {k}: after crash+reopen the store shows the write of commit {} which returned an error; commits {}", w.4, summary()),
					)));
				}
				let kind = if any_error_reported { "acked-after-failure-lost" } else { "silent-fault-acked-lost" };
				return Ok(Some((
					format!("{kind}:{}", f.class_name),
					format!("key {k}: after crash+reopen {:?}, but the last acknowledged write that must survive is commit {:?}; commits {}", got, last_required.map(|i| ws[i].4), summary()),
				)));
			}
			Ok(None)
		}
	}
}

/// runs whose recovery failed after a *reported* I/O failure with no commit acknowledged afterwards
static UNJUDGED: std::sync::atomic::AtomicU64 = std::sync::atomic::AtomicU64::new(0);

pub fn check(tier: Tier) -> i32 {
	let mut report = Report::new("C15", tier, "fault_enumeration");
	let budget = Budget::new(if tier == Tier::Quick { 50.0 } else { 600.0 });
	if !std::path::Path::new(crate::crashx::SHIM).exists() {
		eprintln!("machinery: {} missing", crate::crashx::SHIM);
		return 2;
	}
	let mut total_done = 0u64;
	let mut total_planned = 0usize;
	let mut per_class: BTreeMap<String, u64> = BTreeMap::new();
	let mut seen = BTreeSet::new();
	let mut all_counts = vec![];
	let mut samples = vec![];
	for (wi, wl) in workloads_for(tier == Tier::Thorough).into_iter().enumerate() {
		match check_one(&mut report, tier, &budget, wi, &wl, &mut per_class, &mut seen) {
			Err(code) => return code,
			Ok((done, planned, counts, sample)) => {
				total_done += done;
				total_planned += planned;
				all_counts.push(json!({"workload": wl.opt.name, "calls": counts}));
				samples.push(json!(sample));
			}
		}
	}
	// --- part 2: commits that fail while applying (batch larger than the memtable arena) ---
	let mut apply_runs = 0u64;
	let mut apply_failed_batches = 0u64;
	{
		use rayon::prelude::*;
		surrealkv::verif::set_forced_height(1);
		let scs = crate::props::c15b::scenarios(tier);
		let results: Vec<(usize, Result<(Option<(String, String)>, bool), String>)> = scs.par_iter().enumerate().map(|(i, sc)| (i, crate::props::c15b::run(sc))).collect();
		for (i, r) in results {
			apply_runs += 1;
			match r {
				Err(e) => {
					eprintln!("machinery: apply-failure scenario {}: {e}", scs[i].short());
					return 2;
				}
				Ok((v, failed)) => {
					if failed {
						apply_failed_batches += 1;
					}
					if let Some((class, text)) = v {
						let class = format!("apply-failure:{class}");
						*per_class.entry(class.clone()).or_default() += 1;
						let first = seen.insert(class.clone());
						report.violations.push(crate::util::Violation {
							class,
							what: if first { format!("{} => {text}", scs[i].short()) } else { String::new() },
							replay: if first { scs[i].to_json() } else { J::Null },
						});
					}
				}
			}
		}
		if apply_failed_batches == 0 || apply_failed_batches == apply_runs {
			eprintln!("machinery: apply-failure part is vacuous ({apply_failed_batches} of {apply_runs} batches failed; both outcomes are needed)");
			return 2;
		}
		total_done += apply_runs;
		total_planned += scs.len();
	}
	report.set("apply_failure_scenarios", json!(apply_runs));
	report.set("apply_failure_scenarios_in_which_the_batch_failed", json!(apply_failed_batches));
	report.violations.sort_by_key(|v| v.what.is_empty());
	report.set("evaluations", json!(total_done));
	report.set("distinct_nontrivial", json!(total_done));
	report.set("rule", json!("(thorough tier adds the 7th workload on four more option sets and every operation list of length <= 3 over {set a, set b Immediate, set a+b, delete a, flush-all, compaction, rotate, drain, reopen, flush_wal(sync)}) 7 workloads (4 x 10 commits of 500-byte values with both durabilities, rotate, flush-oldest, drain; 4 KiB memtable so a rotation also happens inside apply; option sets plain / vlog / versioned index / flush-on-close with reopen; 2 x overwrites, deletes and 2-3-key transactions on three keys with rotate, flush, drain, compaction, without and with a reopen in the middle; 1 x six commits of 8 KiB values, larger than any write buffer; judged at value level) x every position n of every call class {write-like: EIO, ENOSPC, short write then ENOSPC; fsync: EIO; rename: EIO; create: ENOSPC} x {once, persistent}; each run is distinct; non-trivial = runs in which the armed position lies within the fault-free call count (all of them)"));
	report.set("samples", json!(samples));
	report.set("call_counts_fault_free", json!(all_counts));
	report.set("fault_runs_planned", json!(total_planned));
	report.set("exhaustive", json!(total_done as usize == total_planned));
	report.set("failures_per_class", json!(per_class));
	report.set("unjudged_unrecoverable_after_reported_failure", json!(UNJUDGED.load(std::sync::atomic::Ordering::Relaxed)));
	report.assume("after a fault that WAS reported to the application (a commit, flush, sync or reopen returned an error) only commits acknowledged after the first failed commit are required to survive (the statement's wording); if the fault was never reported, everything acknowledged must be readable and must survive");
	report.assume("faults are injected at the libc boundary by the LD_PRELOAD shim after the initial open; a failed commit must be invisible in the running store AND in the store recovered after the crash (readers of the recovered store are readers too); within one workload a clean reopen clears the list of failed keys for the running-store check");
	report.finish()
}

#[allow(clippy::type_complexity)]
fn check_one(
	report: &mut Report,
	tier: Tier,
	budget: &Budget,
	wi: usize,
	wl: &Workload,
	per_class: &mut BTreeMap<String, u64>,
	seen: &mut BTreeSet<String>,
) -> Result<(u64, usize, BTreeMap<&'static str, i64>, String), i32> {
	let wl = wl.clone();
	// count the calls of each class in a fault-free run (a fault that never fires still counts)
	let classes: [(i32, &'static str); 4] = [(1, "write"), (2, "fsync"), (4, "rename"), (8, "create")];
	let mut counts: BTreeMap<&'static str, i64> = BTreeMap::new();
	for (c, name) in classes {
		let probe = json!({"nth": 1_000_000_000i64, "class": c, "errno": 5, "persistent": false, "short": false});
		match run_traced_ext(&wl, None, Some(&probe), true) {
			Ok(t) => {
				counts.insert(name, t.worker_out["class_count"].as_i64().unwrap_or(0));
			}
			Err(e) => {
				eprintln!("machinery: fault-free run failed: {e}");
				return Err(2);
			}
		}
	}
	let mut faults = vec![];
	for (c, name) in classes {
		let n = counts[name];
		let kinds: Vec<(i32, &'static str, bool)> = match c {
			1 => vec![(5, "EIO", false), (28, "ENOSPC", false), (28, "ENOSPC", true)],
			2 => vec![(5, "EIO", false)],
			4 => vec![(5, "EIO", false)],
			_ => vec![(28, "ENOSPC", false)],
		};
		for nth in 1..=n {
			for (errno, errname, short) in &kinds {
				for persistent in [false, true] {
					let _ = tier;
					faults.push(Fault {
						class: c,
						class_name: name,
						errno: *errno,
						errname,
						short: *short,
						persistent,
						nth,
					});
				}
			}
		}
	}
	// simplest first: once before persistent, plain errors before short writes
	faults.sort_by_key(|f| (f.persistent, f.short, f.class, f.nth));
	let found: Mutex<Vec<(usize, String, String)>> = Mutex::new(vec![]);
	let done = std::sync::atomic::AtomicU64::new(0);
	let fired = std::sync::atomic::AtomicU64::new(0);
	let machinery: Mutex<Option<String>> = Mutex::new(None);
	faults.par_iter().enumerate().for_each(|(i, f)| {
		if budget.exhausted() {
			return;
		}
		match judge(&wl, f) {
			Err(e) => *machinery.lock().unwrap() = Some(format!("{}: {e}", f.short())),
			Ok(r) => {
				done.fetch_add(1, std::sync::atomic::Ordering::Relaxed);
				fired.fetch_add(1, std::sync::atomic::Ordering::Relaxed);
				if let Some((c, t)) = r {
					found.lock().unwrap().push((i, c, t));
				}
			}
		}
	});
	if let Some(e) = machinery.into_inner().unwrap() {
		eprintln!("machinery: {e}");
		return Err(2);
	}
	let mut found = found.into_inner().unwrap();
	found.sort_by_key(|f| f.0);
	for (i, c, t) in found {
		*per_class.entry(c.clone()).or_default() += 1;
		let first = seen.insert(c.clone());
		report.violations.push(Violation {
			class: c,
			what: if first { format!("[{}: {}] fault {} => {}", wl.opt.name, wops_short(&wl.ops).chars().take(160).collect::<String>(), faults[i].short(), t) } else { String::new() },
			replay: if first { json!({"engine": "c15", "workload": wi, "fault": faults[i].to_json(), "class_name": faults[i].class_name}) } else { J::Null },
		});
	}
	let d = done.load(std::sync::atomic::Ordering::Relaxed);
	let _ = fired;
	let sample = format!("[{}] {}", wl.opt.name, faults[faults.len() / 2].short());
	Ok((d, faults.len(), counts, sample))
}

pub fn replay(r: &J) -> i32 {
	if r["engine"] == "c15-apply" {
		surrealkv::verif::set_forced_height(1);
		let sc = crate::props::c15b::Scenario::from_json(r);
		println!("replaying C15 apply-failure scenario {}", sc.short());
		let a = crate::props::c15b::run(&sc);
		let b = crate::props::c15b::run(&sc);
		return match (a, b) {
			(Ok((a, _)), Ok((b, _))) => {
				if a.as_ref().map(|x| &x.0) != b.as_ref().map(|x| &x.0) {
					eprintln!("machinery: replay not deterministic");
					return 2;
				}
				match a {
					Some((c, t)) => {
						println!("VIOLATION property=C15 replay=<this file>\n  class=apply-failure:{c} {t}");
						1
					}
					None => {
						println!("replay passed: no violation");
						0
					}
				}
			}
			(Err(e), _) | (_, Err(e)) => {
				eprintln!("machinery: {e}");
				2
			}
		};
	}
	let wl = workloads()[r["workload"].as_u64().unwrap_or(0) as usize].clone();
	let f = Fault {
		class: r["fault"]["class"].as_i64().unwrap() as i32,
		class_name: match r["fault"]["class"].as_i64().unwrap() {
			1 => "write",
			2 => "fsync",
			4 => "rename",
			_ => "create",
		},
		errno: r["fault"]["errno"].as_i64().unwrap() as i32,
		errname: "errno",
		short: r["fault"]["short"].as_bool().unwrap_or(false),
		persistent: r["fault"]["persistent"].as_bool().unwrap_or(false),
		nth: r["fault"]["nth"].as_i64().unwrap(),
	};
	println!("replaying C15 fault {}", f.short());
	let a = judge(&wl, &f);
	let b = judge(&wl, &f);
	match (a, b) {
		(Ok(a), Ok(b)) => {
			if a.as_ref().map(|x| &x.0) != b.as_ref().map(|x| &x.0) {
				eprintln!("machinery: replay not deterministic: {a:?} vs {b:?}");
				return 2;
			}
			match a {
				Some((c, t)) => {
					println!("VIOLATION property=C15 replay=<this file>\n  class={c} {}", t.chars().take(4000).collect::<String>());
					1
				}
				None => {
					println!("replay passed: no violation");
					0
				}
			}
		}
		(Err(e), _) | (_, Err(e)) => {
			eprintln!("machinery: {e}");
			2
		}
	}
}
