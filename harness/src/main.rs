mod crashx;
mod model;
mod util;
mod world;
mod props;
mod schedx;

use util::Tier;

fn usage() -> ! {
	eprintln!("usage: vharness check <Cxx> [--tier quick|thorough] | vharness replay <Cxx> <file>");
	std::process::exit(2);
}

fn main() {
	util::install_quiet_panic_hook();
	let args: Vec<String> = std::env::args().collect();
	if args.len() < 3 {
		usage();
	}
	let cmd = args[1].as_str();
	let prop = args[2].as_str();
	let mut tier = match std::env::var("VERIF_TIER").as_deref() {
		Ok("thorough") => Tier::Thorough,
		_ => Tier::Quick,
	};
	let mut i = 3;
	let mut file: Option<String> = None;
	while i < args.len() {
		match args[i].as_str() {
			"--tier" => {
				i += 1;
				tier = match args.get(i).map(|s| s.as_str()) {
					Some("quick") => Tier::Quick,
					Some("thorough") => Tier::Thorough,
					_ => usage(),
				};
			}
			"--replay" => {
				i += 1;
				file = args.get(i).cloned();
			}
			other => {
				if file.is_none() {
					file = Some(other.to_string());
				}
			}
		}
		i += 1;
	}
	let code = match cmd {
		"check" if file.is_none() => props::check(prop, tier),
		"check" | "replay" => {
			let Some(f) = file else { usage() };
			props::replay(prop, &f)
		}
		"worker" => props::worker(prop, &args[3..]),
		_ => usage(),
	};
	util::cleanup_scratch();
	std::process::exit(code);
}
