//! The "world" executor: a real store driven through a closed, deterministic harness.
//!
//! One `World` = one execution: fresh directory, fresh tokio runtime that is only driven when
//! the operation list says so (`G` drain, close), fresh `Options`. Background tasks therefore
//! run exactly when the explored sequence decides.

use std::collections::BTreeMap;
use std::path::{Path, PathBuf};
use std::sync::Arc;

use serde_json::{json, Value as J};
use surrealkv::verif::{LevelShape, ManualClock};
use surrealkv::{
	CompressionType, Durability, LSMIterator, Mode, Options, Transaction, Tree, TreeBuilder,
	VLogChecksumLevel,
};

use crate::model::{in_range, overlay, Kind, KvModel, Write};
use crate::util::{hex, poll_now, Polled};

// ---------------------------------------------------------------------------
// Option sets (the configuration axis: a fixed list, reported as such)
// ---------------------------------------------------------------------------

#[derive(Clone, Debug)]
pub struct OptSet {
	pub name: String,
	pub level_count: u8,
	pub block_size: usize,
	pub restart: usize,
	pub index_partition_size: usize,
	pub bloom: bool,
	pub snappy_l1: bool,
	pub cache_bytes: u64,
	pub vlog: Option<(usize, u64)>,
	pub versioning: Option<(u64, bool)>,
	pub memtable: usize,
	pub flush_on_close: bool,
	pub level0_max_files: usize,
	pub max_bytes_for_level: u64,
	pub memtable_stall: usize,
	pub l0_stall: usize,
	pub vlog_checksum: bool,
	pub absolute_consistency: bool,
}

impl OptSet {
	pub fn base(name: &str) -> OptSet {
		OptSet {
			name: name.to_string(),
			level_count: 2,
			block_size: 4096,
			restart: 16,
			index_partition_size: 16384,
			bloom: true,
			snappy_l1: false,
			cache_bytes: 1 << 20,
			vlog: None,
			versioning: None,
			memtable: 1 << 20,
			flush_on_close: false,
			level0_max_files: 1,
			max_bytes_for_level: 1,
			memtable_stall: 1000,
			l0_stall: 1000,
			vlog_checksum: false,
			absolute_consistency: false,
		}
	}
	pub fn l0_files(mut self, n: usize) -> Self {
		self.level0_max_files = n;
		self
	}
	pub fn levels(mut self, n: u8) -> Self {
		self.level_count = n;
		self
	}
	pub fn tiny_blocks(mut self) -> Self {
		self.block_size = 20;
		self.index_partition_size = 1;
		self.restart = 1;
		self
	}
	pub fn no_bloom(mut self) -> Self {
		self.bloom = false;
		self
	}
	pub fn snappy(mut self) -> Self {
		self.snappy_l1 = true;
		self
	}
	pub fn cache(mut self, b: u64) -> Self {
		self.cache_bytes = b;
		self
	}
	pub fn with_vlog(mut self, threshold: usize, file: u64) -> Self {
		self.vlog = Some((threshold, file));
		self
	}
	pub fn versioned(mut self, retention: u64, index: bool) -> Self {
		self.versioning = Some((retention, index));
		self
	}
	pub fn flush_close(mut self, b: bool) -> Self {
		self.flush_on_close = b;
		self
	}
	pub fn memtable_size(mut self, n: usize) -> Self {
		self.memtable = n;
		self
	}
	pub fn named(mut self, n: &str) -> Self {
		self.name = n.to_string();
		self
	}

	pub fn to_json(&self) -> J {
		json!({
			"name": self.name, "level_count": self.level_count, "block_size": self.block_size,
			"restart": self.restart, "index_partition_size": self.index_partition_size,
			"bloom": self.bloom, "snappy_l1": self.snappy_l1, "cache_bytes": self.cache_bytes,
			"vlog": self.vlog.map(|(a, b)| json!([a, b])),
			"versioning": self.versioning.map(|(a, b)| json!([a, b])),
			"memtable": self.memtable, "flush_on_close": self.flush_on_close,
			"level0_max_files": self.level0_max_files, "max_bytes_for_level": self.max_bytes_for_level,
			"memtable_stall": self.memtable_stall, "l0_stall": self.l0_stall,
			"vlog_checksum": self.vlog_checksum,
			"absolute_consistency": self.absolute_consistency,
		})
	}

	pub fn from_json(j: &J) -> OptSet {
		let pair = |v: &J| -> Option<(u64, u64)> {
			v.as_array().map(|a| (a[0].as_u64().unwrap(), a[1].as_u64().unwrap_or(0)))
		};
		OptSet {
			name: j["name"].as_str().unwrap_or("replay").to_string(),
			level_count: j["level_count"].as_u64().unwrap() as u8,
			block_size: j["block_size"].as_u64().unwrap() as usize,
			restart: j["restart"].as_u64().unwrap() as usize,
			index_partition_size: j["index_partition_size"].as_u64().unwrap() as usize,
			bloom: j["bloom"].as_bool().unwrap(),
			snappy_l1: j["snappy_l1"].as_bool().unwrap(),
			cache_bytes: j["cache_bytes"].as_u64().unwrap(),
			vlog: pair(&j["vlog"]).map(|(a, b)| (a as usize, b)),
			versioning: j["versioning"].as_array().map(|a| (a[0].as_u64().unwrap(), a[1].as_bool().unwrap())),
			memtable: j["memtable"].as_u64().unwrap() as usize,
			flush_on_close: j["flush_on_close"].as_bool().unwrap(),
			level0_max_files: j["level0_max_files"].as_u64().unwrap() as usize,
			max_bytes_for_level: j["max_bytes_for_level"].as_u64().unwrap(),
			memtable_stall: j["memtable_stall"].as_u64().unwrap() as usize,
			l0_stall: j["l0_stall"].as_u64().unwrap() as usize,
			vlog_checksum: j["vlog_checksum"].as_bool().unwrap_or(false),
			absolute_consistency: j["absolute_consistency"].as_bool().unwrap_or(false),
		}
	}

	pub fn build_options(&self, path: &Path, clock: &Arc<ManualClock>) -> Options {
		// One base Options per process: Options::default() spawns a clock thread; clones share it
		// until verif_with_clock replaces it. Cache and clock are replaced per execution below.
		static BASE: std::sync::OnceLock<Options> = std::sync::OnceLock::new();
		let mut o = BASE
			.get_or_init(Options::new)
			.clone()
			.with_path(path.to_path_buf())
			.with_level_count(self.level_count)
			.with_block_size(self.block_size)
			.with_block_restart_interval(self.restart)
			.with_index_partition_size(self.index_partition_size)
			.with_max_memtable_size(self.memtable)
			.with_block_cache_capacity(self.cache_bytes)
			.with_flush_on_close(self.flush_on_close)
			.with_memtable_stall_threshold(self.memtable_stall)
			.with_l0_stall_threshold(self.l0_stall);
		o.level0_max_files = self.level0_max_files;
		o.max_bytes_for_level = self.max_bytes_for_level;
		if !self.bloom {
			o = o.with_filter_policy(None);
		}
		if self.snappy_l1 {
			o = o.with_compression_per_level(vec![CompressionType::None, CompressionType::SnappyCompression]);
		}
		if let Some((ret, index)) = self.versioning {
			o = o.with_versioning(true, ret).with_versioned_index(index);
		}
		if let Some((thr, fsz)) = self.vlog {
			o = o.with_enable_vlog(true).with_vlog_max_file_size(fsz);
			if self.versioning.is_none() {
				o = o.with_vlog_value_threshold(thr);
			}
		}
		if self.vlog_checksum {
			o = o.with_vlog_checksum_verification(VLogChecksumLevel::Full);
		}
		if self.absolute_consistency {
			o = o.with_wal_recovery_mode(surrealkv::WalRecoveryMode::AbsoluteConsistency);
		}
		o.verif_with_clock(Arc::clone(clock))
	}
}

// ---------------------------------------------------------------------------
// Observations
// ---------------------------------------------------------------------------

pub type Pairs = Vec<(Vec<u8>, Vec<u8>)>;

pub const LO: &[u8] = b"\x00";
pub const HI: &[u8] = b"\xff\xff\xff\xff";

pub fn scan_fwd(it: &mut dyn LSMIterator) -> Result<Pairs, String> {
	let mut out = vec![];
	let mut ok = it.seek_first().map_err(|e| format!("seek_first: {e}"))?;
	let mut guard = 0;
	while ok {
		if !it.valid() {
			return Err("seek/next returned true but valid() is false".into());
		}
		out.push((it.key().user_key().to_vec(), it.value().map_err(|e| format!("value: {e}"))?));
		ok = it.next().map_err(|e| format!("next: {e}"))?;
		guard += 1;
		if guard > 10_000 {
			return Err("forward scan does not terminate".into());
		}
	}
	if it.valid() {
		return Err("next returned false but valid() is true".into());
	}
	Ok(out)
}

pub fn scan_bwd(it: &mut dyn LSMIterator) -> Result<Pairs, String> {
	let mut out = vec![];
	let mut ok = it.seek_last().map_err(|e| format!("seek_last: {e}"))?;
	let mut guard = 0;
	while ok {
		if !it.valid() {
			return Err("seek/prev returned true but valid() is false".into());
		}
		out.push((it.key().user_key().to_vec(), it.value().map_err(|e| format!("value: {e}"))?));
		ok = it.prev().map_err(|e| format!("prev: {e}"))?;
		guard += 1;
		if guard > 10_000 {
			return Err("backward scan does not terminate".into());
		}
	}
	if it.valid() {
		return Err("prev returned false but valid() is true".into());
	}
	Ok(out)
}

/// A mismatch between the store and the model.
#[derive(Clone, Debug)]
pub struct Mismatch {
	/// e.g. "fresh" or "reader1"
	pub who: String,
	/// e.g. "get(a)", "scan-fwd"
	pub query: String,
	pub expected: String,
	pub got: String,
	/// coarse kind: stale / missing / extra / error / other
	pub kind: String,
}

impl Mismatch {
	pub fn text(&self) -> String {
		format!("{} {}: expected {} got {}", self.who, self.query, self.expected, self.got)
	}
}

fn fmt_pairs(p: &[(Vec<u8>, Vec<u8>)]) -> String {
	let v: Vec<String> = p.iter().map(|(k, v)| format!("{}={}", hex(k), hex(v))).collect();
	format!("[{}]", v.join(","))
}

fn fmt_opt(v: &Option<Vec<u8>>) -> String {
	match v {
		None => "None".into(),
		Some(v) => format!("Some({})", hex(v)),
	}
}

/// Compare every pure observation of `txn` against `expect`.
pub fn check_view(
	who: &str,
	txn: &Transaction,
	expect: &BTreeMap<Vec<u8>, Vec<u8>>,
	probe_keys: &[Vec<u8>],
) -> Option<Mismatch> {
	for k in probe_keys {
		let exp = expect.get(k).cloned();
		match txn.get(k.as_slice()) {
			Ok(got) => {
				if got != exp {
					let kind = match (&exp, &got) {
						(Some(_), None) => "missing",
						(None, Some(_)) => "resurrected",
						_ => "stale",
					};
					return Some(Mismatch {
						who: who.into(),
						query: format!("get({})", hex(k)),
						expected: fmt_opt(&exp),
						got: fmt_opt(&got),
						kind: kind.into(),
					});
				}
			}
			Err(e) => {
				return Some(Mismatch {
					who: who.into(),
					query: format!("get({})", hex(k)),
					expected: fmt_opt(&exp),
					got: format!("Err({e})"),
					kind: "error".into(),
				})
			}
		}
	}
	let exp_f: Pairs = expect.iter().map(|(k, v)| (k.clone(), v.clone())).collect();
	let exp_b: Pairs = exp_f.iter().rev().cloned().collect();
	for (dir, exp) in [("scan-fwd", &exp_f), ("scan-bwd", &exp_b)] {
		let res = match txn.range(LO, HI) {
			Ok(mut it) => {
				if dir == "scan-fwd" {
					scan_fwd(&mut it)
				} else {
					scan_bwd(&mut it)
				}
			}
			Err(e) => Err(format!("range: {e}")),
		};
		match res {
			Ok(got) => {
				if &got != exp {
					let kind = if got.len() < exp.len() {
						"missing"
					} else if got.len() > exp.len() {
						"resurrected"
					} else {
						"stale"
					};
					return Some(Mismatch {
						who: who.into(),
						query: dir.into(),
						expected: fmt_pairs(exp),
						got: fmt_pairs(&got),
						kind: kind.into(),
					});
				}
			}
			Err(e) => {
				return Some(Mismatch {
					who: who.into(),
					query: dir.into(),
					expected: fmt_pairs(exp),
					got: format!("Err({e})"),
					kind: "error".into(),
				})
			}
		}
	}
	None
}

// ---------------------------------------------------------------------------
// Readers (long-lived transactions, optionally with an open cursor)
// ---------------------------------------------------------------------------

pub struct Reader {
	// NOTE: field order matters — the cursor borrows the transaction.
	pub cursor: Option<Box<dyn LSMIterator + 'static>>,
	pub txn: Box<Transaction>,
	/// model: number of commits visible
	pub p: usize,
	pub pending: Vec<Write>,
	pub mode: Mode,
	/// model cursor: sorted expected list + position (None = invalid)
	pub cur_model: Option<(Pairs, Option<usize>)>,
}

impl Drop for Reader {
	fn drop(&mut self) {
		self.cursor = None;
	}
}

// ---------------------------------------------------------------------------
// World
// ---------------------------------------------------------------------------

pub struct World {
	pub rt: Option<tokio::runtime::Runtime>,
	pub dir: PathBuf,
	pub opt: OptSet,
	pub clock: Arc<ManualClock>,
	pub tree: Option<Tree>,
	pub model: KvModel,
	pub readers: BTreeMap<u8, Reader>,
	pub probe_keys: Vec<Vec<u8>>,
	/// physical operations that actually changed the level shape
	pub effective_physical: u32,
	pub own_dir: bool,
}

fn new_rt() -> tokio::runtime::Runtime {
	tokio::runtime::Builder::new_current_thread().enable_time().build().expect("tokio runtime")
}

impl World {
	pub fn new(opt: OptSet, probe_keys: &[&[u8]]) -> Result<World, String> {
		let dir = crate::util::fresh_dir("w");
		let mut w = World {
			rt: Some(new_rt()),
			dir,
			opt,
			clock: ManualClock::new(1_000),
			tree: None,
			model: KvModel::default(),
			readers: BTreeMap::new(),
			probe_keys: probe_keys.iter().map(|k| k.to_vec()).collect(),
			effective_physical: 0,
			own_dir: true,
		};
		w.open()?;
		Ok(w)
	}

	/// Open an existing directory (crash images etc.). The directory is not removed on drop.
	pub fn attach(opt: OptSet, dir: &Path, probe_keys: &[&[u8]]) -> World {
		World {
			rt: Some(new_rt()),
			dir: dir.to_path_buf(),
			opt,
			clock: ManualClock::new(1_000_000),
			tree: None,
			model: KvModel::default(),
			readers: BTreeMap::new(),
			probe_keys: probe_keys.iter().map(|k| k.to_vec()).collect(),
			effective_physical: 0,
			own_dir: false,
		}
	}

	pub fn open(&mut self) -> Result<(), String> {
		let _g = self.rt.as_ref().unwrap().enter();
		let opts = self.opt.build_options(&self.dir, &self.clock);
		match TreeBuilder::with_options(opts).build() {
			Ok(t) => {
				self.tree = Some(t);
				Ok(())
			}
			Err(e) => Err(format!("{e}")),
		}
	}

	pub fn tree(&self) -> &Tree {
		self.tree.as_ref().expect("store open")
	}

	/// Clean close (drives the runtime: pending background work runs).
	pub fn close(&mut self) -> Result<(), String> {
		self.readers.clear();
		let Some(tree) = self.tree.take() else {
			return Ok(());
		};
		let rt = self.rt.as_ref().unwrap();
		let r = rt.block_on(async { tree.close().await });
		drop(tree);
		// Fresh runtime for the next session: the old one may hold the Drop-spawned close task.
		self.rt = None;
		self.rt = Some(new_rt());
		r.map_err(|e| format!("{e}"))
	}

	/// Abandon the store without closing (process-crash style): the runtime is dropped, which
	/// cancels the background tasks and releases the directory lock.
	pub fn abandon(&mut self) {
		self.readers.clear();
		{
			let _g = self.rt.as_ref().unwrap().enter();
			self.tree = None;
		}
		self.rt = None;
		self.rt = Some(new_rt());
	}

	pub fn reopen(&mut self) -> Result<(), String> {
		self.close().map_err(|e| format!("close: {e}"))?;
		self.open().map_err(|e| format!("open: {e}"))
	}

	/// Run background tasks until quiescent.
	pub fn drain(&mut self) {
		let rt = self.rt.as_ref().unwrap();
		let mut idle = 0;
		for _ in 0..200 {
			let before = surrealkv::verif::bg_progress_count();
			rt.block_on(async {
				for _ in 0..4 {
					tokio::task::yield_now().await;
				}
			});
			if surrealkv::verif::bg_progress_count() == before {
				idle += 1;
				if idle >= 2 {
					break;
				}
			} else {
				idle = 0;
			}
		}
	}

	pub fn shape(&self) -> Option<LevelShape> {
		self.tree.as_ref().and_then(|t| t.verif_level_shape().ok())
	}

	/// One committed transaction. Ok(true) = committed, Ok(false) = commit returned an error
	/// (reported in the string), Err = machinery problem.
	pub fn commit(&mut self, writes: &[Write], durability: Durability) -> Result<Result<(), String>, String> {
		let _g = self.rt.as_ref().unwrap().enter();
		self.clock.advance(10);
		let tree = self.tree();
		let mut txn = tree.begin().map_err(|e| format!("begin: {e}"))?;
		txn.set_durability(durability);
		for w in writes {
			apply_write(&mut txn, w).map_err(|e| format!("write {}: {e}", w.short()))?;
		}
		let res = match poll_now(txn.commit()) {
			Polled::Ready(r) => r,
			Polled::WouldBlock => return Err("commit would block (stall) in sequential harness".into()),
		};
		drop(txn);
		match res {
			Ok(()) => {
				let now = self.clock.get();
				let stamped: Vec<Write> = writes
					.iter()
					.map(|w| {
						let mut w = w.clone();
						if w.ts.is_none() {
							w.ts = Some(now);
						}
						w
					})
					.collect();
				self.model.commits.push(stamped);
				Ok(Ok(()))
			}
			Err(e) => Ok(Err(format!("{e}"))),
		}
	}

	pub fn physical(&mut self, op: Phys) -> Result<(), String> {
		let before = self.shape();
		let r = {
			let _g = self.rt.as_ref().unwrap().enter();
			match op {
				Phys::Rotate => self.tree().verif_rotate().map_err(|e| format!("rotate: {e}")),
				Phys::FlushOldest => self.tree().verif_flush_oldest().map(|_| ()).map_err(|e| format!("flush-oldest: {e}")),
				Phys::FlushAll => self.tree().verif_flush_all().map_err(|e| format!("flush-all: {e}")),
				Phys::Compact => self.tree().verif_compact_round().map_err(|e| format!("compact: {e}")),
				Phys::Drain => Ok(()),
				Phys::Reopen => Ok(()),
			}
		};
		r?;
		match op {
			Phys::Drain => {
				self.tree().verif_wake_background();
				self.drain();
			}
			Phys::Reopen => {
				self.reopen()?;
			}
			_ => {}
		}
		if self.shape() != before || op == Phys::Reopen {
			self.effective_physical += 1;
		}
		Ok(())
	}

	pub fn begin_reader(&mut self, id: u8, mode: Mode) -> Result<(), String> {
		let _g = self.rt.as_ref().unwrap().enter();
		let txn = self.tree().begin_with_mode(mode).map_err(|e| format!("begin: {e}"))?;
		self.readers.insert(
			id,
			Reader {
				cursor: None,
				txn: Box::new(txn),
				p: self.model.len(),
				pending: vec![],
				mode,
				cur_model: None,
			},
		);
		Ok(())
	}

	pub fn drop_reader(&mut self, id: u8) {
		self.readers.remove(&id);
	}

	pub fn reader_write(&mut self, id: u8, w: &Write) -> Result<(), String> {
		let r = self.readers.get_mut(&id).ok_or("no such reader")?;
		// the cursor borrows the transaction immutably; a write needs it gone
		r.cursor = None;
		r.cur_model = None;
		apply_write(&mut r.txn, w).map_err(|e| format!("{e}"))?;
		r.pending.push(w.clone());
		Ok(())
	}

	/// Open a range cursor over [LO,HI) on reader `id` and position it with seek_first.
	pub fn cursor_open(&mut self, id: u8) -> Result<Option<Mismatch>, String> {
		let base = self.model.state(self.readers.get(&id).ok_or("no such reader")?.p);
		let r = self.readers.get_mut(&id).unwrap();
		r.cursor = None;
		let exp: Pairs = overlay(&base, &r.pending).into_iter().collect();
		let txn_ref: &'static Transaction = unsafe { &*(r.txn.as_ref() as *const Transaction) };
		let it = txn_ref.range(LO, HI).map_err(|e| format!("range: {e}"))?;
		let mut it: Box<dyn LSMIterator + 'static> = Box::new(it);
		it.seek_first().map_err(|e| format!("seek_first: {e}"))?;
		let pos = if exp.is_empty() { None } else { Some(0) };
		r.cursor = Some(it);
		r.cur_model = Some((exp, pos));
		Ok(self.cursor_check(id))
	}

	/// Step the open cursor of reader `id` (fwd = next, else prev).
	pub fn cursor_step(&mut self, id: u8, fwd: bool) -> Result<Option<Mismatch>, String> {
		let r = self.readers.get_mut(&id).ok_or("no such reader")?;
		let (Some(it), Some((exp, pos))) = (r.cursor.as_mut(), r.cur_model.as_mut()) else {
			return Ok(None);
		};
		let Some(p) = *pos else {
			return Ok(None); // ran off an end: only seeks may follow (property statement)
		};
		if fwd {
			it.next().map_err(|e| format!("next: {e}"))?;
			*pos = if p + 1 < exp.len() { Some(p + 1) } else { None };
		} else {
			it.prev().map_err(|e| format!("prev: {e}"))?;
			*pos = if p > 0 { Some(p - 1) } else { None };
		}
		Ok(self.cursor_check(id))
	}

	fn cursor_check(&self, id: u8) -> Option<Mismatch> {
		let r = self.readers.get(&id)?;
		let (it, (exp, pos)) = (r.cursor.as_ref()?, r.cur_model.as_ref()?);
		let expected = pos.map(|p| exp[p].clone());
		let got = if it.valid() {
			match it.value() {
				Ok(v) => Some((it.key().user_key().to_vec(), v)),
				Err(e) => {
					return Some(Mismatch {
						who: format!("reader{id}"),
						query: "cursor.value".into(),
						expected: format!("{expected:?}"),
						got: format!("Err({e})"),
						kind: "error".into(),
					})
				}
			}
		} else {
			None
		};
		if got != expected {
			let f = |x: &Option<(Vec<u8>, Vec<u8>)>| match x {
				None => "invalid".to_string(),
				Some((k, v)) => format!("{}={}", hex(k), hex(v)),
			};
			return Some(Mismatch {
				who: format!("reader{id}"),
				query: "cursor".into(),
				expected: f(&expected),
				got: f(&got),
				kind: "stale".into(),
			});
		}
		None
	}

	/// Compare every open reader and a fresh transaction with the model.
	pub fn check_all(&mut self) -> Option<Mismatch> {
		let _g = self.rt.as_ref().unwrap().enter();
		let mut keys = self.probe_keys.clone();
		for k in self.model.keys() {
			if !keys.contains(&k) {
				keys.push(k);
			}
		}
		for (id, r) in &self.readers {
			if r.mode == Mode::WriteOnly {
				continue;
			}
			let exp = overlay(&self.model.state(r.p), &r.pending);
			if let Some(m) = check_view(&format!("reader{id}"), &r.txn, &exp, &keys) {
				return Some(m);
			}
		}
		self.check_fresh(&keys)
	}

	pub fn check_fresh(&self, keys: &[Vec<u8>]) -> Option<Mismatch> {
		let Some(tree) = self.tree.as_ref() else {
			return None;
		};
		let txn = match tree.begin_with_mode(Mode::ReadOnly) {
			Ok(t) => t,
			Err(e) => {
				return Some(Mismatch {
					who: "fresh".into(),
					query: "begin".into(),
					expected: "Ok".into(),
					got: format!("Err({e})"),
					kind: "error".into(),
				})
			}
		};
		let exp = self.model.state(self.model.len());
		if let Some(m) = self.check_index_pointers() {
			return Some(m);
		}
		if self.opt.versioning.is_some() {
			// a time-range history scan first: whatever it leaves in the caches must not change
			// the answers of the plain reads that follow
			let o = surrealkv::HistoryOptions::new().with_tombstones(true).with_ts_range(0, u64::MAX);
			if let Ok(mut it) = txn.history_with_options(LO, HI, &o) {
				let mut ok = it.seek_first().unwrap_or(false);
				let mut n = 0;
				while ok && n < 1000 {
					n += 1;
					ok = it.next().unwrap_or(false);
				}
			}
		}
		check_view("fresh", &txn, &exp, keys)
	}

	/// With a value log: the oldest value-log file each live table records as referenced must exist
	/// (clean-up only removes files below the minimum over all live tables).
	pub fn check_table_pointers(&self) -> Option<Mismatch> {
		let shape = self.shape()?;
		let mut on_disk = std::collections::BTreeSet::new();
		if let Ok(rd) = std::fs::read_dir(self.dir.join("vlog")) {
			for e in rd.flatten() {
				let n = e.file_name().to_string_lossy().to_string();
				if let Some(id) = n.strip_suffix(".vlog").and_then(|x| x.parse::<u64>().ok()) {
					on_disk.insert(id);
				}
			}
		}
		for (li, level) in shape.levels.iter().enumerate() {
			for t in level {
				if t.oldest_vlog_file_id > 0 && !on_disk.contains(&t.oldest_vlog_file_id) {
					return Some(Mismatch {
						who: "tables".into(),
						query: "oldest value-log file referenced by each live table".into(),
						expected: "present".into(),
						got: format!("table {} (level {li}) points into value-log file {} which is gone (on disk {on_disk:?})", t.id, t.oldest_vlog_file_id),
						kind: "dangling-table-pointer".into(),
					});
				}
			}
		}
		None
	}

	/// With a value log and a version index: every value-log file an index entry points into
	/// must exist (no file is removed while an index entry can still lead a reader to it).
	pub fn check_index_pointers(&self) -> Option<Mismatch> {
		if self.opt.vlog.is_none() {
			return None;
		}
		if let Some(m) = self.check_table_pointers() {
			return Some(m);
		}
		if !matches!(self.opt.versioning, Some((_, true))) {
			return None;
		}
		let tree = self.tree.as_ref()?;
		let refs = match tree.verif_index_vlog_files() {
			Ok(r) => r,
			Err(e) => {
				return Some(Mismatch {
					who: "index".into(),
					query: "walk".into(),
					expected: "Ok".into(),
					got: format!("Err({e})"),
					kind: "error".into(),
				})
			}
		};
		let mut on_disk = std::collections::BTreeSet::new();
		if let Ok(rd) = std::fs::read_dir(self.dir.join("vlog")) {
			for e in rd.flatten() {
				let n = e.file_name().to_string_lossy().to_string();
				if let Some(id) = n.strip_suffix(".vlog").and_then(|x| x.parse::<u32>().ok()) {
					on_disk.insert(id);
				}
			}
		}
		let missing: Vec<u32> = refs.iter().copied().filter(|f| !on_disk.contains(f)).collect();
		if missing.is_empty() {
			None
		} else {
			Some(Mismatch {
				who: "index".into(),
				query: "value-log files referenced by version-index entries".into(),
				expected: "all present".into(),
				got: format!("missing files {missing:?} (on disk {on_disk:?})"),
				kind: "dangling-index-pointer".into(),
			})
		}
	}

	/// Full content through a fresh read-only transaction (no model).
	pub fn dump(&self) -> Result<Pairs, String> {
		let _g = self.rt.as_ref().unwrap().enter();
		let txn = self.tree().begin_with_mode(Mode::ReadOnly).map_err(|e| format!("begin: {e}"))?;
		let mut it = txn.range(LO, HI).map_err(|e| format!("range: {e}"))?;
		scan_fwd(&mut it)
	}
}

impl Drop for World {
	fn drop(&mut self) {
		self.readers.clear();
		if let Some(rt) = self.rt.as_ref() {
			let _g = rt.enter();
			self.tree = None;
		}
		self.rt = None;
		if self.own_dir {
			let _ = std::fs::remove_dir_all(&self.dir);
		}
	}
}

pub fn apply_write(txn: &mut Transaction, w: &Write) -> surrealkv::Result<()> {
	match (w.kind, w.ts) {
		(Kind::Set, None) => txn.set(w.key.as_slice(), w.value.as_slice()),
		(Kind::Set, Some(ts)) => txn.set_at(w.key.as_slice(), w.value.as_slice(), ts),
		(Kind::Delete, None) => txn.delete(w.key.as_slice()),
		(Kind::Delete, Some(ts)) => txn
			.delete_with_options(w.key.as_slice(), &surrealkv::WriteOptions::new().with_timestamp(Some(ts))),
		(Kind::SoftDelete, None) => txn.soft_delete(w.key.as_slice()),
		(Kind::SoftDelete, Some(ts)) => txn.soft_delete_with_options(
			w.key.as_slice(),
			&surrealkv::WriteOptions::new().with_timestamp(Some(ts)),
		),
		(Kind::Replace, _) => txn.replace(w.key.as_slice(), w.value.as_slice()),
	}
}

#[derive(Clone, Copy, Debug, PartialEq, Eq, Hash)]
pub enum Phys {
	Rotate,
	FlushOldest,
	FlushAll,
	Compact,
	Drain,
	Reopen,
}

impl Phys {
	pub fn as_str(&self) -> &'static str {
		match self {
			Phys::Rotate => "R",
			Phys::FlushOldest => "F1",
			Phys::FlushAll => "F",
			Phys::Compact => "C",
			Phys::Drain => "G",
			Phys::Reopen => "O",
		}
	}
	pub fn parse(s: &str) -> Option<Phys> {
		Some(match s {
			"R" => Phys::Rotate,
			"F1" => Phys::FlushOldest,
			"F" => Phys::FlushAll,
			"C" => Phys::Compact,
			"G" => Phys::Drain,
			"O" => Phys::Reopen,
			_ => return None,
		})
	}
}

/// World operation (the alphabet shared by C01, C06, C07, C11, C14).
#[derive(Clone, Debug, PartialEq, Eq, Hash)]
pub enum Op {
	W(Vec<Write>),
	P(Phys),
	Begin(u8, bool), // id, read-only?
	DropR(u8),
	RWrite(u8, Write),
	CurOpen(u8),
	CurStep(u8, bool),
}

impl Op {
	pub fn short(&self) -> String {
		match self {
			Op::W(ws) => format!("W[{}]", ws.iter().map(|w| w.short()).collect::<Vec<_>>().join(";")),
			Op::P(p) => p.as_str().to_string(),
			Op::Begin(i, ro) => format!("B{}{}", i, if *ro { "ro" } else { "" }),
			Op::DropR(i) => format!("D{i}"),
			Op::RWrite(i, w) => format!("w{}[{}]", i, w.short()),
			Op::CurOpen(i) => format!("K{i}"),
			Op::CurStep(i, f) => format!("S{}{}", i, if *f { "+" } else { "-" }),
		}
	}
	pub fn to_json(&self) -> J {
		match self {
			Op::W(ws) => json!({"op": "W", "writes": ws.iter().map(|w| w.to_json()).collect::<Vec<_>>()}),
			Op::P(p) => json!({"op": p.as_str()}),
			Op::Begin(i, ro) => json!({"op": "B", "id": i, "ro": ro}),
			Op::DropR(i) => json!({"op": "D", "id": i}),
			Op::RWrite(i, w) => json!({"op": "w", "id": i, "write": w.to_json()}),
			Op::CurOpen(i) => json!({"op": "K", "id": i}),
			Op::CurStep(i, f) => json!({"op": "S", "id": i, "fwd": f}),
		}
	}
	pub fn from_json(j: &J) -> Op {
		let o = j["op"].as_str().unwrap();
		let id = || j["id"].as_u64().unwrap() as u8;
		match o {
			"W" => Op::W(j["writes"].as_array().unwrap().iter().map(Write::from_json).collect()),
			"B" => Op::Begin(id(), j["ro"].as_bool().unwrap()),
			"D" => Op::DropR(id()),
			"w" => Op::RWrite(id(), Write::from_json(&j["write"])),
			"K" => Op::CurOpen(id()),
			"S" => Op::CurStep(id(), j["fwd"].as_bool().unwrap()),
			p => Op::P(Phys::parse(p).expect("op")),
		}
	}
}

pub fn ops_short(ops: &[Op]) -> String {
	ops.iter().map(|o| o.short()).collect::<Vec<_>>().join(" ")
}

/// Outcome of one world execution.
pub struct WorldRun {
	pub failure: Option<WorldFailure>,
	pub steps: u64,
	pub effective_physical: u32,
	pub shapes: Vec<u64>,
	pub obs_hash: u64,
}

#[derive(Clone, Debug)]
pub struct WorldFailure {
	pub step: usize,
	/// "mismatch" | "op-error" | "reopen-error" | "commit-error" | "panic"
	pub kind: String,
	pub detail: String,
	pub mismatch: Option<Mismatch>,
}

/// Execute an operation list on a fresh world, checking every observer after every step.
pub fn run_world(opt: &OptSet, ops: &[Op], probe_keys: &[&[u8]]) -> WorldRun {
	let mut run = WorldRun {
		failure: None,
		steps: 0,
		effective_physical: 0,
		shapes: vec![],
		obs_hash: 0,
	};
	let res = crate::util::guarded(|| {
		let mut w = match World::new(opt.clone(), probe_keys) {
			Ok(w) => w,
			Err(e) => {
				return (
					Some(WorldFailure {
						step: 0,
						kind: "open-error".into(),
						detail: e,
						mismatch: None,
					}),
					0u64,
					0u32,
					vec![],
				)
			}
		};
		let mut shapes = vec![];
		let mut steps = 0u64;
		for (i, op) in ops.iter().enumerate() {
			let fail = |kind: &str, detail: String| WorldFailure {
				step: i,
				kind: kind.into(),
				detail,
				mismatch: None,
			};
			let r: Result<Option<Mismatch>, WorldFailure> = match op {
				Op::W(ws) => match w.commit(ws, Durability::Eventual) {
					Ok(Ok(())) => Ok(None),
					Ok(Err(e)) => Err(fail("commit-error", e)),
					Err(e) => Err(fail("op-error", e)),
				},
				Op::P(Phys::Reopen) => w.physical(Phys::Reopen).map(|_| None).map_err(|e| fail("reopen-error", e)),
				Op::P(p) => w.physical(*p).map(|_| None).map_err(|e| fail("op-error", e)),
				Op::Begin(id, ro) => w
					.begin_reader(*id, if *ro { Mode::ReadOnly } else { Mode::ReadWrite })
					.map(|_| None)
					.map_err(|e| fail("op-error", e)),
				Op::DropR(id) => {
					w.drop_reader(*id);
					Ok(None)
				}
				Op::RWrite(id, wr) => w.reader_write(*id, wr).map(|_| None).map_err(|e| fail("op-error", e)),
				Op::CurOpen(id) => w.cursor_open(*id).map_err(|e| fail("op-error", e)),
				Op::CurStep(id, f) => w.cursor_step(*id, *f).map_err(|e| fail("op-error", e)),
			};
			steps += 1;
			match r {
				Err(f) => return (Some(f), steps, w.effective_physical, shapes),
				Ok(Some(m)) => {
					return (
						Some(WorldFailure {
							step: i,
							kind: "mismatch".into(),
							detail: m.text(),
							mismatch: Some(m),
						}),
						steps,
						w.effective_physical,
						shapes,
					)
				}
				Ok(None) => {}
			}
			if let Some(m) = w.check_all() {
				return (
					Some(WorldFailure {
						step: i,
						kind: "mismatch".into(),
						detail: m.text(),
						mismatch: Some(m),
					}),
					steps,
					w.effective_physical,
					shapes,
				);
			}
			if let Some(s) = w.shape() {
				if std::env::var("VERIF_DEBUG").is_ok() {
					eprintln!("step {i} {}: tracker={:?} shape={:?}", op.short(), w.tree().verif_tracker_dump(), s);
				}
				shapes.push(shape_hash(&s, w.model.len()));
			}
		}
		(None, steps, w.effective_physical, shapes)
	});
	match res {
		Ok((f, steps, eff, shapes)) => {
			run.failure = f;
			run.steps = steps;
			run.effective_physical = eff;
			run.shapes = shapes;
		}
		Err(p) => {
			run.failure = Some(WorldFailure {
				step: ops.len(),
				kind: "panic".into(),
				detail: p,
				mismatch: None,
			});
		}
	}
	run
}

/// Canonical (model size, physical shape) hash — evidence/state counting only.
pub fn shape_hash(s: &LevelShape, commits: usize) -> u64 {
	let mut txt = format!("{commits}|{}|{}|", s.active_empty, s.immutables.len());
	for (i, l) in s.levels.iter().enumerate() {
		txt.push_str(&format!("L{i}:"));
		for t in l {
			txt.push_str(&format!("({:?},{:?},{:?},{})", t.smallest, t.largest, t.seqnos, t.entries));
		}
	}
	crate::util::fnv64(txt.as_bytes())
}
