// vshim — LD_PRELOAD tracer / fault injector for file-system mutations under one directory tree.
//
// Records every mutating libc call whose path/fd lies under $VSHIM_ROOT into $VSHIM_OUT as a
// stream of binary events (see emit_*). The harness replays the stream to build crash images.
// Anything the model cannot express (writable shared mmap of a watched file) aborts loudly.
//
// Event layout: u8 op, then fields (u64 little endian, strings/data as u32 len + bytes).
#define _GNU_SOURCE
#include <dlfcn.h>
#include <errno.h>
#include <fcntl.h>
#include <pthread.h>
#include <stdarg.h>
#include <stdint.h>
#include <stdio.h>
#include <stdlib.h>
#include <string.h>
#include <sys/mman.h>
#include <sys/stat.h>
#include <sys/types.h>
#include <sys/uio.h>
#include <unistd.h>

enum { EV_CREATE = 1, EV_OPENEXIST = 2, EV_WRITE = 3, EV_TRUNC = 4, EV_RENAME = 5, EV_UNLINK = 6,
       EV_MKDIR = 7, EV_RMDIR = 8, EV_FSYNC = 9, EV_FSYNCDIR = 10, EV_MARK = 11, EV_LINK = 12,
       EV_FAULT = 13 };

static pthread_mutex_t mu = PTHREAD_MUTEX_INITIALIZER;
static int out_fd = -1;
static char root[4096];
static size_t root_len = 0;
static int active = 0;

#define MAXFD 4096
static uint64_t fd_obj[MAXFD];   // 0 = not watched
static int fd_isdir[MAXFD];
static int fd_append[MAXFD];
static char *fd_dirpath[MAXFD];

#define MAXPATHS 8192
static char *np_path[MAXPATHS];
static uint64_t np_obj[MAXPATHS];
static int np_n = 0;
static uint64_t next_obj = 1;

// fault injection: fail the nth (1-based) call of a class; classes: 1 write-like, 2 fsync-like,
// 4 rename, 8 open-create, 16 unlink. kind: errno to return; short_write: write half then fail next.
static long fault_nth = 0; static int fault_class = 0; static int fault_errno = 0; static int fault_persistent = 0;
static int fault_short = 0; static long class_count = 0; static int fault_fired = 0;

static ssize_t (*real_write)(int, const void *, size_t);
static ssize_t (*real_pwrite64)(int, const void *, size_t, off64_t);
static ssize_t (*real_pwrite)(int, const void *, size_t, off_t);
static ssize_t (*real_writev)(int, const struct iovec *, int);
static ssize_t (*real_pwritev)(int, const struct iovec *, int, off_t);
static int (*real_open)(const char *, int, ...);
static int (*real_open64)(const char *, int, ...);
static int (*real_openat)(int, const char *, int, ...);
static int (*real_openat64)(int, const char *, int, ...);
static int (*real_creat)(const char *, mode_t);
static int (*real_close)(int);
static int (*real_fsync)(int);
static int (*real_fdatasync)(int);
static int (*real_ftruncate)(int, off_t);
static int (*real_ftruncate64)(int, off64_t);
static int (*real_truncate)(const char *, off_t);
static int (*real_rename)(const char *, const char *);
static int (*real_renameat)(int, const char *, int, const char *);
static int (*real_renameat2)(int, const char *, int, const char *, unsigned int);
static int (*real_unlink)(const char *);
static int (*real_unlinkat)(int, const char *, int);
static int (*real_mkdir)(const char *, mode_t);
static int (*real_mkdirat)(int, const char *, mode_t);
static int (*real_rmdir)(const char *);
static int (*real_link)(const char *, const char *);
static int (*real_dup)(int);
static int (*real_dup2)(int, int);
static int (*real_dup3)(int, int, int);
static int (*real_fcntl)(int, int, ...);
static int (*real_fcntl64)(int, int, ...);
static void *(*real_mmap)(void *, size_t, int, int, int, off_t);
static void *(*real_mmap64)(void *, size_t, int, int, int, off64_t);
static ssize_t (*real_copy_file_range)(int, off64_t *, int, off64_t *, size_t, unsigned int);
static ssize_t (*real_sendfile)(int, int, off_t *, size_t);
static ssize_t (*real_sendfile64)(int, int, off64_t *, size_t);
static int (*real_fallocate)(int, int, off_t, off_t);
static int (*real_fallocate64)(int, int, off64_t, off64_t);
static int (*real_posix_fallocate)(int, off_t, off_t);
static int (*real_sync_file_range)(int, off64_t, off64_t, unsigned int);

#define R(name) do { if (!real_##name) real_##name = dlsym(RTLD_NEXT, #name); } while (0)

static void die(const char *m) {
	const char *p = "vshim: fatal: ";
	if (real_write) { real_write(2, p, strlen(p)); real_write(2, m, strlen(m)); real_write(2, "\n", 1); }
	abort();
}

static void resolve_all(void) {
	R(write); R(pwrite64); R(pwrite); R(writev); R(pwritev); R(open); R(open64); R(openat); R(openat64); R(creat);
	R(close); R(fsync); R(fdatasync); R(ftruncate); R(ftruncate64); R(truncate); R(rename); R(renameat);
	R(renameat2); R(unlink); R(unlinkat); R(mkdir); R(mkdirat); R(rmdir); R(link); R(dup); R(dup2); R(dup3);
	R(fcntl); R(fcntl64); R(mmap); R(mmap64); R(copy_file_range); R(sendfile); R(sendfile64); R(fallocate);
	R(fallocate64); R(posix_fallocate); R(sync_file_range);
}

__attribute__((constructor)) static void vshim_init(void) {
	resolve_all();
	const char *r = getenv("VSHIM_ROOT");
	const char *o = getenv("VSHIM_OUT");
	if (r && o && *r && *o) {
		strncpy(root, r, sizeof(root) - 1);
		root_len = strlen(root);
		while (root_len > 1 && root[root_len - 1] == '/') root[--root_len] = 0;
		out_fd = real_open64(o, O_WRONLY | O_CREAT | O_TRUNC | O_CLOEXEC, 0644);
		if (out_fd < 0) die("cannot open VSHIM_OUT");
		// keep the trace fd away from small numbers
		int hi = real_fcntl(out_fd, F_DUPFD_CLOEXEC, 900);
		if (hi >= 0) { real_close(out_fd); out_fd = hi; }
		active = getenv("VSHIM_START_ACTIVE") ? 1 : 0;
	}
}

static int watched(const char *p) {
	return out_fd >= 0 && p && strncmp(p, root, root_len) == 0 && (p[root_len] == '/' || p[root_len] == 0);
}

// ---- event emission (mu held) ----
static void put(const void *b, size_t n) {
	const char *p = b;
	while (n > 0) {
		ssize_t w = real_write(out_fd, p, n);
		if (w <= 0) die("trace write failed");
		p += w; n -= (size_t)w;
	}
}
static void put_u8(uint8_t v) { put(&v, 1); }
static void put_u64(uint64_t v) { put(&v, 8); }
static void put_bytes(const void *b, size_t n) { uint32_t l = (uint32_t)n; put(&l, 4); put(b, n); }
static void put_str(const char *s) { put_bytes(s, strlen(s)); }

// ---- namespace model (mu held) ----
static uint64_t ns_lookup(const char *p) {
	for (int i = 0; i < np_n; i++) if (np_path[i] && strcmp(np_path[i], p) == 0) return np_obj[i];
	return 0;
}
static void ns_set(const char *p, uint64_t obj) {
	for (int i = 0; i < np_n; i++) if (np_path[i] && strcmp(np_path[i], p) == 0) { np_obj[i] = obj; return; }
	for (int i = 0; i < np_n; i++) if (!np_path[i]) { np_path[i] = strdup(p); np_obj[i] = obj; return; }
	if (np_n >= MAXPATHS) die("too many paths");
	np_path[np_n] = strdup(p); np_obj[np_n] = obj; np_n++;
}
static void ns_del(const char *p) {
	for (int i = 0; i < np_n; i++) if (np_path[i] && strcmp(np_path[i], p) == 0) { free(np_path[i]); np_path[i] = NULL; return; }
}
static void ns_rename_prefix(const char *a, const char *b) {
	// rename of a file or of a directory (all paths below it move)
	size_t al = strlen(a);
	for (int i = 0; i < np_n; i++) {
		if (!np_path[i]) continue;
		if (strcmp(np_path[i], b) == 0) { free(np_path[i]); np_path[i] = NULL; }
	}
	for (int i = 0; i < np_n; i++) {
		if (!np_path[i]) continue;
		if (strcmp(np_path[i], a) == 0 || (strncmp(np_path[i], a, al) == 0 && np_path[i][al] == '/')) {
			char buf[8192];
			snprintf(buf, sizeof buf, "%s%s", b, np_path[i] + al);
			free(np_path[i]); np_path[i] = strdup(buf);
		}
	}
}

static void abspath(int dirfd, const char *p, char *out, size_t n) {
	if (p[0] == '/') { snprintf(out, n, "%s", p); }
	else if (dirfd == AT_FDCWD) {
		char cwd[4096]; if (!getcwd(cwd, sizeof cwd)) cwd[0] = 0;
		snprintf(out, n, "%s/%s", cwd, p);
	} else {
		char link[64], dir[4096]; snprintf(link, sizeof link, "/proc/self/fd/%d", dirfd);
		ssize_t l = readlink(link, dir, sizeof dir - 1); if (l < 0) l = 0; dir[l] = 0;
		snprintf(out, n, "%s/%s", dir, p);
	}
	// normalise "//" and trailing "/"
	size_t len = strlen(out);
	while (len > 1 && out[len - 1] == '/') out[--len] = 0;
}

// returns errno to inject, or 0
static int fault_check(int cls) {
	if (!active || !fault_nth || !(fault_class & cls)) return 0;
	class_count++;
	int fire = fault_persistent ? (class_count >= fault_nth) : (class_count == fault_nth);
	if (fire) {
		fault_fired = 1;
		put_u8(EV_FAULT); put_u64((uint64_t)class_count); put_u64((uint64_t)cls);
		return fault_errno;
	}
	return 0;
}

// ---- control ABI (looked up with dlsym by the harness) ----
void vshim_start(void) { pthread_mutex_lock(&mu); active = 1; pthread_mutex_unlock(&mu); }
void vshim_stop(void) { pthread_mutex_lock(&mu); active = 0; pthread_mutex_unlock(&mu); }
void vshim_mark(const char *label) {
	pthread_mutex_lock(&mu);
	if (out_fd >= 0) { put_u8(EV_MARK); put_str(label); }
	pthread_mutex_unlock(&mu);
}
void vshim_fault(long nth, int cls, int err, int persistent, int short_write) {
	pthread_mutex_lock(&mu);
	fault_nth = nth; fault_class = cls; fault_errno = err; fault_persistent = persistent; fault_short = short_write;
	class_count = 0; fault_fired = 0;
	pthread_mutex_unlock(&mu);
}
long vshim_class_count(void) { return class_count; }
int vshim_fault_fired(void) { return fault_fired; }

// ---- open family ----
static int after_open(int fd, const char *path, int flags, int existed) {
	if (fd < 0 || fd >= MAXFD) return fd;
	fd_obj[fd] = 0; fd_isdir[fd] = 0; fd_append[fd] = 0;
	if (fd_dirpath[fd]) { free(fd_dirpath[fd]); fd_dirpath[fd] = NULL; }
	if (!watched(path)) return fd;
	struct stat st;
	if (fstat(fd, &st) == 0 && S_ISDIR(st.st_mode)) { fd_isdir[fd] = 1; fd_dirpath[fd] = strdup(path); return fd; }
	uint64_t obj = ns_lookup(path);
	if (!existed || obj == 0) {
		obj = next_obj++;
		ns_set(path, obj);
		if (active) { put_u8(existed ? EV_OPENEXIST : EV_CREATE); put_str(path); put_u64(obj); }
	}
	if (existed && (flags & O_TRUNC) && (flags & (O_WRONLY | O_RDWR)) && active) { put_u8(EV_TRUNC); put_u64(obj); put_u64(0); }
	fd_obj[fd] = obj; fd_append[fd] = (flags & O_APPEND) ? 1 : 0;
	return fd;
}

static int do_open(int which, int dirfd, const char *path, int flags, mode_t mode) {
	char ap[8192]; abspath(dirfd, path, ap, sizeof ap);
	int w = watched(ap);
	int existed = 1;
	if (w) {
		struct stat st; existed = (stat(ap, &st) == 0);
		if (!existed && (flags & O_CREAT)) {
			pthread_mutex_lock(&mu); int e = fault_check(8); pthread_mutex_unlock(&mu);
			if (e) { errno = e; return -1; }
		}
	}
	int fd;
	switch (which) {
	case 0: fd = real_open(path, flags, mode); break;
	case 1: fd = real_open64(path, flags, mode); break;
	case 2: fd = real_openat(dirfd, path, flags, mode); break;
	default: fd = real_openat64(dirfd, path, flags, mode); break;
	}
	if (fd >= 0) { pthread_mutex_lock(&mu); after_open(fd, ap, flags, existed); pthread_mutex_unlock(&mu); }
	return fd;
}

#define OPEN_BODY(which, dirfd) \
	mode_t mode = 0; if (flags & (O_CREAT | O_TMPFILE)) { va_list a; va_start(a, flags); mode = va_arg(a, mode_t); va_end(a); } \
	resolve_all(); return do_open(which, dirfd, path, flags, mode);

int open(const char *path, int flags, ...) { OPEN_BODY(0, AT_FDCWD) }
int open64(const char *path, int flags, ...) { OPEN_BODY(1, AT_FDCWD) }
int openat(int dirfd, const char *path, int flags, ...) { OPEN_BODY(2, dirfd) }
int openat64(int dirfd, const char *path, int flags, ...) { OPEN_BODY(3, dirfd) }
int creat(const char *path, mode_t mode) { resolve_all(); return do_open(1, AT_FDCWD, path, O_CREAT | O_WRONLY | O_TRUNC, mode); }

int close(int fd) {
	resolve_all();
	if (fd >= 0 && fd < MAXFD) { pthread_mutex_lock(&mu); fd_obj[fd] = 0; fd_isdir[fd] = 0; if (fd_dirpath[fd]) { free(fd_dirpath[fd]); fd_dirpath[fd] = NULL; } pthread_mutex_unlock(&mu); }
	if (fd == out_fd) return 0;
	return real_close(fd);
}

static void copy_fd(int from, int to) {
	if (from < 0 || from >= MAXFD || to < 0 || to >= MAXFD) return;
	fd_obj[to] = fd_obj[from]; fd_isdir[to] = fd_isdir[from]; fd_append[to] = fd_append[from];
	if (fd_dirpath[to]) { free(fd_dirpath[to]); fd_dirpath[to] = NULL; }
	if (fd_dirpath[from]) fd_dirpath[to] = strdup(fd_dirpath[from]);
}
int dup(int fd) { resolve_all(); int n = real_dup(fd); if (n >= 0) { pthread_mutex_lock(&mu); copy_fd(fd, n); pthread_mutex_unlock(&mu); } return n; }
int dup2(int fd, int to) { resolve_all(); int n = real_dup2(fd, to); if (n >= 0) { pthread_mutex_lock(&mu); copy_fd(fd, n); pthread_mutex_unlock(&mu); } return n; }
int dup3(int fd, int to, int fl) { resolve_all(); int n = real_dup3(fd, to, fl); if (n >= 0) { pthread_mutex_lock(&mu); copy_fd(fd, n); pthread_mutex_unlock(&mu); } return n; }
static int fcntl_common(int which, int fd, int cmd, void *arg) {
	int r = which ? real_fcntl64(fd, cmd, arg) : real_fcntl(fd, cmd, arg);
	if (r >= 0 && (cmd == F_DUPFD || cmd == F_DUPFD_CLOEXEC)) { pthread_mutex_lock(&mu); copy_fd(fd, r); pthread_mutex_unlock(&mu); }
	return r;
}
int fcntl(int fd, int cmd, ...) { resolve_all(); va_list a; va_start(a, cmd); void *arg = va_arg(a, void *); va_end(a); return fcntl_common(0, fd, cmd, arg); }
int fcntl64(int fd, int cmd, ...) { resolve_all(); va_list a; va_start(a, cmd); void *arg = va_arg(a, void *); va_end(a); if (!real_fcntl64) return fcntl_common(0, fd, cmd, arg); return fcntl_common(1, fd, cmd, arg); }

// ---- data writes ----
static off64_t cur_off(int fd) {
	if (fd_append[fd]) { struct stat st; if (fstat(fd, &st) == 0) return st.st_size; }
	return lseek64(fd, 0, SEEK_CUR);
}
static void log_write(int fd, off64_t off, const void *buf, size_t n) {
	if (!active || n == 0) return;
	put_u8(EV_WRITE); put_u64(fd_obj[fd]); put_u64((uint64_t)off); put_bytes(buf, n);
}
static int is_w(int fd) { return fd >= 0 && fd < MAXFD && fd_obj[fd] != 0; }

ssize_t write(int fd, const void *buf, size_t n) {
	resolve_all();
	if (!is_w(fd)) return real_write(fd, buf, n);
	pthread_mutex_lock(&mu);
	int e = fault_check(1);
	if (e) {
		if (fault_short && n > 1) {
			off64_t off = cur_off(fd);
			ssize_t r = real_write(fd, buf, n / 2);
			if (r > 0) log_write(fd, off, buf, (size_t)r);
			pthread_mutex_unlock(&mu);
			return r;   // short write; the caller's retry hits the (persistent or next) fault
		}
		pthread_mutex_unlock(&mu); errno = e; return -1;
	}
	off64_t off = cur_off(fd);
	ssize_t r = real_write(fd, buf, n);
	if (r > 0) log_write(fd, off, buf, (size_t)r);
	pthread_mutex_unlock(&mu);
	return r;
}
static ssize_t pw_common(int which, int fd, const void *buf, size_t n, off64_t off) {
	if (!is_w(fd)) return which ? real_pwrite64(fd, buf, n, off) : real_pwrite(fd, buf, n, (off_t)off);
	pthread_mutex_lock(&mu);
	int e = fault_check(1);
	if (e) { pthread_mutex_unlock(&mu); errno = e; return -1; }
	ssize_t r = which ? real_pwrite64(fd, buf, n, off) : real_pwrite(fd, buf, n, (off_t)off);
	if (r > 0) log_write(fd, off, buf, (size_t)r);
	pthread_mutex_unlock(&mu);
	return r;
}
ssize_t pwrite64(int fd, const void *buf, size_t n, off64_t off) { resolve_all(); return pw_common(1, fd, buf, n, off); }
ssize_t pwrite(int fd, const void *buf, size_t n, off_t off) { resolve_all(); return pw_common(0, fd, buf, n, off); }
ssize_t writev(int fd, const struct iovec *iov, int cnt) {
	resolve_all();
	if (!is_w(fd)) return real_writev(fd, iov, cnt);
	pthread_mutex_lock(&mu);
	int e = fault_check(1);
	if (e) { pthread_mutex_unlock(&mu); errno = e; return -1; }
	off64_t off = cur_off(fd);
	ssize_t r = real_writev(fd, iov, cnt);
	if (r > 0) {
		size_t left = (size_t)r; off64_t o = off;
		for (int i = 0; i < cnt && left > 0; i++) {
			size_t k = iov[i].iov_len < left ? iov[i].iov_len : left;
			log_write(fd, o, iov[i].iov_base, k); o += k; left -= k;
		}
	}
	pthread_mutex_unlock(&mu);
	return r;
}
ssize_t pwritev(int fd, const struct iovec *iov, int cnt, off_t off) {
	resolve_all();
	if (!is_w(fd)) return real_pwritev(fd, iov, cnt, off);
	die("pwritev on a watched file is not modelled"); return -1;
}

static int trunc_common(int fd, off64_t len, int which) {
	if (!is_w(fd)) return which ? real_ftruncate64(fd, len) : real_ftruncate(fd, (off_t)len);
	pthread_mutex_lock(&mu);
	int e = fault_check(1);
	if (e) { pthread_mutex_unlock(&mu); errno = e; return -1; }
	int r = which ? real_ftruncate64(fd, len) : real_ftruncate(fd, (off_t)len);
	if (r == 0 && active) { put_u8(EV_TRUNC); put_u64(fd_obj[fd]); put_u64((uint64_t)len); }
	pthread_mutex_unlock(&mu);
	return r;
}
int ftruncate(int fd, off_t len) { resolve_all(); return trunc_common(fd, len, 0); }
int ftruncate64(int fd, off64_t len) { resolve_all(); return trunc_common(fd, len, 1); }
int truncate(const char *path, off_t len) {
	resolve_all();
	char ap[8192]; abspath(AT_FDCWD, path, ap, sizeof ap);
	if (watched(ap)) die("truncate(path) on a watched file is not modelled");
	return real_truncate(path, len);
}

// ---- sync ----
static int sync_common(int fd, int which) {
	int w = fd >= 0 && fd < MAXFD && (fd_obj[fd] != 0 || fd_isdir[fd]);
	if (!w) return which ? real_fdatasync(fd) : real_fsync(fd);
	pthread_mutex_lock(&mu);
	int e = fault_check(2);
	if (e) { pthread_mutex_unlock(&mu); errno = e; return -1; }
	int r = which ? real_fdatasync(fd) : real_fsync(fd);
	if (r == 0 && active) {
		if (fd_isdir[fd]) { put_u8(EV_FSYNCDIR); put_str(fd_dirpath[fd] ? fd_dirpath[fd] : ""); }
		else { put_u8(EV_FSYNC); put_u64(fd_obj[fd]); }
	}
	pthread_mutex_unlock(&mu);
	return r;
}
int fsync(int fd) { resolve_all(); return sync_common(fd, 0); }
int fdatasync(int fd) { resolve_all(); return sync_common(fd, 1); }
int sync_file_range(int fd, off64_t a, off64_t b, unsigned int f) {
	resolve_all();
	if (is_w(fd)) die("sync_file_range on a watched file is not modelled");
	return real_sync_file_range(fd, a, b, f);
}

// ---- namespace ----
static int rename_common(int od, const char *a, int nd, const char *b, int which, unsigned int flags) {
	char pa[8192], pb[8192]; abspath(od, a, pa, sizeof pa); abspath(nd, b, pb, sizeof pb);
	int w = watched(pa) || watched(pb);
	if (w) { pthread_mutex_lock(&mu); int e = fault_check(4); pthread_mutex_unlock(&mu); if (e) { errno = e; return -1; } }
	int r = which == 0 ? real_rename(a, b) : which == 1 ? real_renameat(od, a, nd, b) : real_renameat2(od, a, nd, b, flags);
	if (r == 0 && w) {
		if (flags) die("renameat2 with flags on a watched path is not modelled");
		pthread_mutex_lock(&mu);
		ns_rename_prefix(pa, pb);
		if (active) { put_u8(EV_RENAME); put_str(pa); put_str(pb); }
		pthread_mutex_unlock(&mu);
	}
	return r;
}
int rename(const char *a, const char *b) { resolve_all(); return rename_common(AT_FDCWD, a, AT_FDCWD, b, 0, 0); }
int renameat(int od, const char *a, int nd, const char *b) { resolve_all(); return rename_common(od, a, nd, b, 1, 0); }
int renameat2(int od, const char *a, int nd, const char *b, unsigned int f) { resolve_all(); return rename_common(od, a, nd, b, 2, f); }

static int unlink_common(int dirfd, const char *p, int flags, int which) {
	char ap[8192]; abspath(dirfd, p, ap, sizeof ap);
	int w = watched(ap);
	if (w) { pthread_mutex_lock(&mu); int e = fault_check(16); pthread_mutex_unlock(&mu); if (e) { errno = e; return -1; } }
	int r = which == 0 ? real_unlink(p) : which == 1 ? real_unlinkat(dirfd, p, flags) : real_rmdir(p);
	if (r == 0 && w) {
		pthread_mutex_lock(&mu);
		int isdir = (which == 2) || (which == 1 && (flags & AT_REMOVEDIR));
		if (!isdir) ns_del(ap);
		if (active) { put_u8(isdir ? EV_RMDIR : EV_UNLINK); put_str(ap); }
		pthread_mutex_unlock(&mu);
	}
	return r;
}
int unlink(const char *p) { resolve_all(); return unlink_common(AT_FDCWD, p, 0, 0); }
int unlinkat(int d, const char *p, int f) { resolve_all(); return unlink_common(d, p, f, 1); }
int rmdir(const char *p) { resolve_all(); return unlink_common(AT_FDCWD, p, 0, 2); }

static int mkdir_common(int dirfd, const char *p, mode_t m, int which) {
	char ap[8192]; abspath(dirfd, p, ap, sizeof ap);
	int r = which ? real_mkdirat(dirfd, p, m) : real_mkdir(p, m);
	if (r == 0 && watched(ap)) { pthread_mutex_lock(&mu); if (active) { put_u8(EV_MKDIR); put_str(ap); } pthread_mutex_unlock(&mu); }
	return r;
}
int mkdir(const char *p, mode_t m) { resolve_all(); return mkdir_common(AT_FDCWD, p, m, 0); }
int mkdirat(int d, const char *p, mode_t m) { resolve_all(); return mkdir_common(d, p, m, 1); }

int link(const char *a, const char *b) {
	resolve_all();
	char pa[8192], pb[8192]; abspath(AT_FDCWD, a, pa, sizeof pa); abspath(AT_FDCWD, b, pb, sizeof pb);
	int r = real_link(a, b);
	if (r == 0 && (watched(pa) || watched(pb))) {
		pthread_mutex_lock(&mu);
		uint64_t obj = ns_lookup(pa);
		if (obj) ns_set(pb, obj);
		if (active) { put_u8(EV_LINK); put_str(pa); put_str(pb); }
		pthread_mutex_unlock(&mu);
	}
	return r;
}

// ---- things we refuse to model silently ----
void *mmap(void *a, size_t l, int prot, int flags, int fd, off_t off) {
	resolve_all();
	if (is_w(fd) && (flags & MAP_SHARED) && (prot & PROT_WRITE)) die("writable shared mmap of a watched file");
	return real_mmap(a, l, prot, flags, fd, off);
}
void *mmap64(void *a, size_t l, int prot, int flags, int fd, off64_t off) {
	resolve_all();
	if (is_w(fd) && (flags & MAP_SHARED) && (prot & PROT_WRITE)) die("writable shared mmap of a watched file");
	return real_mmap64(a, l, prot, flags, fd, off);
}
// copy_file_range / sendfile into a watched file: refuse with ENOSYS/EINVAL so that std::fs::copy
// falls back to read+write, which is traced.
ssize_t copy_file_range(int in, off64_t *io, int out, off64_t *oo, size_t n, unsigned int f) {
	resolve_all();
	if (is_w(out)) { errno = ENOSYS; return -1; }
	return real_copy_file_range(in, io, out, oo, n, f);
}
ssize_t sendfile(int out, int in, off_t *o, size_t n) { resolve_all(); if (is_w(out)) { errno = EINVAL; return -1; } return real_sendfile(out, in, o, n); }
ssize_t sendfile64(int out, int in, off64_t *o, size_t n) { resolve_all(); if (is_w(out)) { errno = EINVAL; return -1; } return real_sendfile64(out, in, o, n); }
int fallocate(int fd, int mode, off_t o, off_t l) { resolve_all(); if (is_w(fd)) die("fallocate on a watched file is not modelled"); return real_fallocate(fd, mode, o, l); }
int fallocate64(int fd, int mode, off64_t o, off64_t l) { resolve_all(); if (is_w(fd)) die("fallocate on a watched file is not modelled"); return real_fallocate64(fd, mode, o, l); }
int posix_fallocate(int fd, off_t o, off_t l) { resolve_all(); if (is_w(fd)) die("posix_fallocate on a watched file is not modelled"); return real_posix_fallocate(fd, o, l); }
