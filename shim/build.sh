#!/bin/bash
# builds /verif/target/vshim.so from /verif/shim/vshim.c (only when out of date)
set -e
mkdir -p /verif/target
if [ ! -f /verif/target/vshim.so ] || [ /verif/shim/vshim.c -nt /verif/target/vshim.so ]; then
	gcc -O1 -g -fPIC -shared -Wall -Wno-unused-function -o /verif/target/vshim.so.tmp /verif/shim/vshim.c -ldl -lpthread
	mv /verif/target/vshim.so.tmp /verif/target/vshim.so
fi
