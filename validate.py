#!/opt/veriftools/pyvenv/bin/python
import json,jsonschema,glob,sys
m=json.load(open('/verif/MANIFEST.json')); jsonschema.validate(m,json.load(open('/root/.vp/MANIFEST.schema.json')))
es=json.load(open('/root/.vp/EVIDENCE.schema.json'))
for f in sorted(glob.glob('/verif/evidence/*.json')):
    e=json.load(open(f)); jsonschema.validate(e,es)
    c=e['coverage']; print(f.split('/')[-1], e['tier'], 'eval',c.get('evaluations'),'nontriv',c.get('distinct_nontrivial'),'states',c.get('states'),'exh',c.get('exhaustive'),'viol',e.get('violations'), 'wall %.0f'%e['wall_s'])
ids=[json.loads(l)['id'] for l in open('/verif/properties.jsonl')]
claimed=[c['property_id'] for c in m['checks']]; na=[c['property_id'] for c in m.get('not_applicable',[])]
print('claimed',claimed); print('unlisted',[i for i in ids if i not in claimed and i not in na])
