#!/usr/bin/env python3
"""Generates /verif/MANIFEST.json from the table below (single source of truth for claims)."""
import json, subprocess

HOOK_COMMITS = subprocess.run(["git", "-C", "/repo", "log", "--format=%h %s"], capture_output=True, text=True).stdout.splitlines()
HOOK_COMMITS = [l.split()[0] for l in HOOK_COMMITS if l.split(" ", 1)[1].startswith("verif hooks")]

ENGINES = {
 "crashx": ("harness/src/crashx.rs, harness/src/props/crash.rs, shim/vshim.c", "LD_PRELOAD tracer records every mutating libc call of a worker process running the real store; the parent replays the trace into a file-system model, enumerates every crash point x image family, materialises each distinct image and recovers it with the real store; tracer self-check (replayed trace == real directory) on every run"),
 "damage-sweep": ("harness/src/props/c16.rs", "every damage position x damage kind of a file, evaluated in worker subprocesses (abort/hang attributed through a progress file), answers compared with the pristine answers"),
 "schedx": ("harness/src/schedx.rs, harness/src/props/sched.rs", "baton scheduler over real OS threads: threads run only when chosen, decisions at the yield/acquire hook points compiled into surrealkv and at pending awaits (custom block_on), canonical enabled order, preemption-bounded depth-first exploration with parallel subtrees, deadlock/livelock detection, replay of a recorded choice list"),
 "seqx-component": ("harness/src/props/c04.rs, c12.rs, c13.rs, c18.rs", "bounded-exhaustive enumeration against real components reached through the cfg(surrealkv_verif) facades (conflict oracle, commit-log writer/reader/repair, table writer/reader, B+tree), each compared with a small reference model"),
 "seqx-txn": ("harness/src/props/c08.rs, harness/src/props/c09.rs", "bounded-exhaustive programs (transaction calls / cursor calls) against the real Transaction API on stores built by a construction script, compared call by call with a reference model"),
 "seqx-world": ("harness/src/world.rs", "bounded-exhaustive operation sequences on the real store under a harness-driven single-threaded runtime (background tasks run only where the sequence says), compared with a reference model after every step; stateless re-execution from a fresh directory"),
}

SEQ_TECH = "bounded-exhaustive operation-sequence enumeration on the real code vs. reference model (explicit-state, stateless re-execution)"

CHECKS = {
 "C01": dict(engine="seqx-world", cat="model_checking", tech=SEQ_TECH,
  text="All world sequences (commits, flush / compaction / rotate / background drain, up to two long-lived readers with begin, drop, pending writes and an open range cursor stepped across physical operations) up to a length bound are executed on the real store; after every step every open reader's point reads, both scan directions and cursor position are compared with the map model at the prefix fixed at its begin.",
  note="Sequential part: histories x placements x a fixed list of option sets, exhaustive within the grammar bounds. Schedule part (schedx): a reader's begin and three read rounds interleaved with two committers on the key it reads, flush and compaction, all schedules within the preemption bound; the reader's reads must be identical and mutually consistent.", ref="DESIGN.md §5 C01"),
 "C06": dict(engine="seqx-world", cat="model_checking", tech=SEQ_TECH,
  text="Every logical history of n single-write transactions over two colliding keys and four write kinds, crossed with every placement of up to d physical operations (rotate, flush, compaction round, background drain, clean reopen), is executed on the real store for each option set of a fixed list; after every step all point reads and both scan directions of a fresh transaction are compared with a map model.",
  note="Exhaustive only within the stated bounds (n, d) and the fixed option-set list; keys/values are a fixed small alphabet; single-threaded (background tasks run only where the sequence says).", ref="DESIGN.md §5 C06"),
 "C07": dict(engine="seqx-world", cat="model_checking", tech=SEQ_TECH,
  text="(a) Every sequence of n commits over a 3-letter alphabet and d flush/compaction operations is followed by clean close, reopen (must succeed with the model's content), a probe commit (must be visible), flush and a second reopen; plus memtable-overflow and oversize-transaction scenarios. (b) Every crash image of the crashx enumeration (process and power-loss families at every file-system call) is opened, crashed again, opened again (same content), given a probe commit (visible), flushed, closed and opened a third time (probe and content intact).",
  note="Exhaustive within (n, d) bounds, the fixed option sets and the crashx workload bounds; crash model as stated in C02.", ref="DESIGN.md §5 C07"),
 "C08": dict(engine="seqx-txn", cat="model_checking", tech=SEQ_TECH,
  text="Every transaction program up to a length bound over set / delete / soft delete / replace / explicit-timestamp set on adversarial keys and values, set_savepoint and rollback_to_savepoint, in each mode and with each terminal (commit, rollback, drop), runs on the real store; after every call the result class and all reads (get of every key, both scan directions) are compared with a pending-write-list model, then the closed transaction must reject every call and a fresh transaction must see exactly the surviving writes or nothing.",
  note="Exhaustive within the program-length bound and the fixed key/value alphabet; one pre-populated snapshot shape (live, deleted, absent key).", ref="DESIGN.md §5 C08"),
 "C09": dict(engine="seqx-txn", cat="model_checking", tech=SEQ_TECH,
  text="For every layout of a placement grammar (8 placements per key across write-set, memtable, L0, L1, incl. tombstones and versions invisible to the snapshot), every bounds pair (absent sides, empty, inverted) and every cursor program up to a length bound, the real range cursor is compared step by step (return value, valid, key, value) with a cursor over the sorted list of live keys in [lo, hi).",
  note="Exhaustive within keys/program-length/reversal bounds; one option set with one entry per block and per index partition; after the cursor ran off an end only seeks are issued (as the property states).", ref="DESIGN.md §5 C09"),
 "C04": dict(engine="seqx-component", cat="model_checking", tech=SEQ_TECH,
  text="All event lists (begin, commit of live transaction #i on {a}|{b}|{a,b} with or without a failing memtable apply, abort, pin/unpin of a read-only observer; at most 3 live and 4 transactions) up to a length bound run (A) on the real CommitOracle + ActiveTxnTracker with the GC throttle forced to 2 and 3 so the real gate and sweep run, the harness playing the commit critical section in the pipeline's order, and (B) on the real store through begin/commit with injected apply failures; every admission/rejection is compared with a full-history conflict model and the committed state with a map model.",
  note="Parts A/B enumerate sequential event orders; part C (schedx) explores all schedules within the preemption bound of three transactions with overlapping key sets (incl. an injected apply failure): failed commits leave no trace, final values come from successful writers, and two successful writers of a key never read the same version of it. GC interval forced by a hook that bumps the real counter to the real threshold.", ref="DESIGN.md §5 C04"),
 "C12": dict(engine="seqx-component", cat="fault_enumeration", tech="exhaustive damage enumeration (every truncation offset / bit flip / byte XOR of an enumerated position set) on files written and read by the real commit-log code, vs. a record-list model",
  text="For every record-length sequence of a block-boundary-focused alphabet (x LZ4 on/off x session split) the segment written by the real writer is read back, then damaged at every position of an enumerated set by truncation, byte XOR and each single-bit flip; each damaged file is read, repaired when corruption is reported, read again, appended to by a fresh writer and read a last time; the prefix rule of the property is checked at every stage.",
  note="File-level part (writer, reader, repair through the facade). Files above the size bound are damaged at every header/padding/fragment-edge/block-boundary byte rather than at every byte (an enumerated set, reported in evidence). Store-level recovery modes are judged by the crash engine.", ref="DESIGN.md §5 C12"),
 "C13": dict(engine="seqx-component", cat="model_checking", tech=SEQ_TECH,
  text="Every non-empty subset (up to a size bound) of a universe of versioned entries over adversarial user keys is written by the real TableWriter for each of 108 table-format option sets (+ block sizes below the per-block overhead), reopened by the real Table reader and compared with the sorted input: forward, backward, seek (+next/prev) to every (key, seq) target incl. absent keys, point lookup for every key x snapshot, all range bounds, and the key-range shortcuts.",
  note="Tables live in memory (Vec<u8> implements the crate's File trait); universe and option product are fixed finite lists, enumerated completely within the subset-size bound.", ref="DESIGN.md §5 C13"),
 "C18": dict(engine="seqx-component", cat="model_checking", tech="explicit-state BFS over the real B+tree with exact state identity (file bytes) + stateless enumeration of live operation lists, vs. BTreeMap and a page audit",
  text="Breadth-first search over insert (three size classes incl. overflow chains) / delete on skewed key sets under both comparators; a state is the exact file content after flush, every transition reopens the tree from the state's bytes, applies one operation, compares get / range / cursor (forward, backward, seek) with a BTreeMap and audits every page (reachable + free list = all pages, disjoint, header counter, leaf chain); a second pass runs all short operation lists on one live tree (warm node cache) followed by a reopen. Seeds include a prefilled 3-level tree.",
  note="Exhaustive to the stated depth from each seed state; state identity is a 64-bit hash of the file bytes; key sets and size classes are fixed lists chosen to force splits, merges, redistribution, overflow and free-list reuse.", ref="DESIGN.md §5 C18"),
 "C02": dict(engine="crashx", cat="fault_enumeration", tech="exhaustive crash-point x torn-write enumeration over traced executions of the real store (LD_PRELOAD tracer), recovered by the real store and compared with the model of acknowledged commits",
  text="Workloads (every op list up to a length bound over commits with both durabilities, multi-key commits, deletes, flush, compaction, rotation, background drain, reopen, synced WAL flush; plus rotation families against a tiny memtable) run in a traced worker; for every crash point (after every file-system call) the process-crash image and the power-loss family (all unsynced data dropped; one file keeps each prefix of its unsynced writes with the last one torn) are built, de-duplicated and recovered with the real store; every acknowledged (process model) or durably acknowledged (power model) commit must be present. A second generation (crash, recover, commit, crash) runs from distinct recovered images.",
  note="Crash model as stated in the property (namespace operations in order; per-file prefix of unsynced writes). Schedule axis (schedx): two concurrent committers against a nearly full memtable plus a background flusher/compactor, a process-crash image is taken and recovered after every explored schedule. Generation 2 covers a capped, priority-ordered subset of recovered images (reported).", ref="DESIGN.md §5 C02"),
 "C03": dict(engine="crashx", cat="fault_enumeration", tech="exhaustive crash-point x torn-write enumeration over traced executions of the real store, recovered content compared with every prefix of the commit order",
  text="Same image enumeration as C02 (shared engine, separate verdict): the full scan of every recovered image must equal the map model at one prefix of the commit order, no transaction partially present, nothing deleted or overwritten within the prefix reappearing; includes crash points inside flush, manifest replacement, compaction (output, manifest switch, input deletion), WAL repair and orphan clean-up during the traced recovery of second-generation runs.",
  note="Sequential commit order (single committer). Crash model as stated in C02.", ref="DESIGN.md §5 C03"),
 "C15": dict(engine="crashx", cat="fault_enumeration", tech="exhaustive fault-position enumeration (every call position of every call class x error kind x once/persistent) injected at the libc boundary into traced executions of the real store",
  text="Four workloads (commits of both durabilities against a tiny memtable, explicit and in-apply rotation, flush, background drain; plain / value-log / version-index / flush-on-close option sets) run once per injected fault: every position of every mutating call class (write-like: EIO, ENOSPC, short write then ENOSPC; fsync: EIO; rename: EIO; create: ENOSPC), once and persistently. The worker reads the visible key set after every operation and then dies; the directory it leaves is reopened with faults off. A commit that returned an error must never be visible; acknowledged commits must stay readable; commits acknowledged after a failed commit (all acknowledged commits if no error was ever reported) must survive the crash; no panic, no hang.",
  note="Faults are injected by the LD_PRELOAD shim after the initial open. Whether a failed commit's WAL record reappears after recovery is not judged; durability of commits acknowledged before a *reported* I/O failure is not judged (counted in evidence).", ref="DESIGN.md §5 C15"),
 "C16": dict(engine="damage-sweep", cat="fault_enumeration", tech="exhaustive single-bit / single-byte / truncation damage enumeration over files written by the real code, read back through the real readers in isolated worker processes",
  text="For every byte position of table files in several formats (real TableWriter, read through the production file implementation) and of the table, commit-log (absolute-consistency mode) and value-log (full checksum verification) files of small databases built by the real store: each of the 8 single-bit flips, XOR 0xff and, for tables, truncation at that offset; every point lookup (every key incl. absent ones x snapshots) and both scan directions, respectively open + reads of the database, must return the pristine answer or an error. Workers run as subprocesses with a progress file so that aborts and hangs are attributed to the exact position.",
  note="Single-bit/byte damage and truncation only; the manifest is not in the property's scope and is not swept; in repair mode a consistent prefix of the commit log is the documented outcome (judged by C12), so the commit-log case uses absolute-consistency mode.", ref="DESIGN.md §5 C16"),
 "C05": dict(engine="schedx", cat="model_checking", tech="stateless preemption-bounded schedule exploration of real OS threads (CHESS-style iterative context bounding) at cfg(surrealkv_verif) scheduling points, every schedule re-executed on the real store",
  text="2-3 committers with batches of different sizes (incl. one with a duplicate key from savepoint history), optionally against a nearly full memtable so that the rotation falls inside an apply, plus a background thread flushing and compacting, are run under a baton scheduler for every schedule with at most 2 (quick) / 3 (thorough) preemptions; at EVERY scheduling point of every schedule a read-only probe transaction is begun and must see, for each transaction, all of its writes or none, a horizon that accounts for exactly the visible transactions, every commit that had already returned, and never less than an earlier probe.",
  note="Interleavings at the hook points and at pending awaits only (code between two points runs atomically; data races between points and weak-memory effects are outside the claim). Background work is a managed thread calling the flush/compaction bodies directly.", ref="DESIGN.md §5 C05"),
 "C17": dict(engine="schedx", cat="model_checking", tech="stateless preemption-bounded schedule exploration of real OS threads (CHESS-style iterative context bounding) at cfg(surrealkv_verif) scheduling points, every schedule re-executed on the real store",
  text="Committers against a nearly full memtable with the lowest legal stall thresholds, a background flusher/compactor, injected WAL and apply failures and a closer thread issuing the shutdown signals are explored for every schedule within the preemption bound; the scheduler reports a deadlock (no enabled thread while some are unfinished) or a livelock (step horizon exceeded), any panic (incl. the commit-queue overflow panic) and any commit error that has no cause in the scenario. The full close() (task manager stop with real timers) is exercised after every prefix of sequential workloads by the world engine (C06/C07).",
  note="Up to 3 concurrent committers (the pipeline admits 7); close() itself is not run under the scheduler (its tokio timers are not scheduling points), only its first two steps (pipeline shutdown + stall wake-up) are.", ref="DESIGN.md §5 C17"),
 "C14": dict(engine="seqx-world", cat="model_checking", tech=SEQ_TECH,
  text="For three canonical pre-histories (memtable only / one L0 table / L1 + L0 + memtable), every mid-history of up to m operations from {commit, delete, flush, compaction} between checkpoint and restore and every post-history of up to p operations from {commit, flush, compaction, reopen} after the restore is executed on the real store per option set (plain, value log, versioning, version index, no cache, tiny blocks); after the restore and after every later step all reads are compared with the map model at the checkpoint plus the post-restore commits, and the checkpoint directory is opened on its own and compared with the model at the checkpoint. Background tasks queued before the restore (deferred WAL clean-up) are left pending across it.",
  note="Single-threaded driver (no commit in flight during checkpoint/restore); exhaustive within (m, p) and the fixed option sets; history/time-travel reads after a restore are judged by C10.", ref="DESIGN.md §5 C14"),
 "C19": dict(engine="seqx-world", cat="model_checking", tech=SEQ_TECH,
  text="All operation lists up to a length bound over {open by opener 1/2, close, drop (the runtime is then run so that the Drop-spawned close completes), a child process opens the directory, SIGKILL the child}, generated against the ownership state machine, are executed on the real store: at most one opener ever holds the directory, a refused open (in-process or cross-process) returns an error and leaves every file incl. LOCK byte-identical, and after close / drop / death of the owner the next open succeeds and sees the committed data.",
  note="Exhaustive within the length bound; an open attempt racing with the individual steps of a concurrent close() is not explored (close() is not run under the scheduler).", ref="DESIGN.md §5 C19"),
 "C10": dict(engine="seqx-world", cat="model_checking", tech=SEQ_TECH,
  text="All histories of n timestamped writes (set, soft delete, hard delete, replace; two keys; strictly increasing timestamps) crossed with every placement of d physical operations (flush, compaction, reopen) are executed on three configurations (LSM scan with 2 and 3 levels, B+tree version index); after every step get_at for every key at/around every timestamp and history() for every combination of tombstones on/off x timestamp ranges x limits, forward, backward and by seek, are compared with a version-list model, and the configurations' answer logs with each other. Further parts: all set-only histories with out-of-order timestamps (index back-end), finite retention under a manual clock with a bracketed (must-keep / may-keep) oracle, history after checkpoint/restore on both back-ends, and every distinct process-crash image of a workload that flushes and compacts with the index enabled (recovered store = model at one admissible prefix).",
  note="Equal timestamps on one key and a limit combined with backward traversal are not judged (the statement leaves them open). Exhaustive within (n, d) and the listed parts' bounds.", ref="DESIGN.md §5 C10"),
}

NOT_YET = {}

props = [json.loads(l)["id"] for l in open("/verif/properties.jsonl")]
checks = []
for pid in props:
    if pid not in CHECKS: continue
    c = CHECKS[pid]
    checks.append({
        "property_id": pid,
        "quick_cmd": f"./check {pid} --tier quick",
        "thorough_cmd": f"./check {pid} --tier thorough",
        "evidence_file": f"/verif/evidence/{pid}.json",
        "replay_cmd_template": f"./check {pid} --replay {{path}}",
        "engine": c["engine"],
        "level_claimed": {"category": c["cat"], "text": c["text"], "design_ref": c["ref"]},
        "level_note": c["note"],
        "technique": c["tech"],
    })
na = [{"property_id": p, "reason": NOT_YET.get(p, "check not built yet (work in progress); not claimed")} for p in props if p not in CHECKS]
used = sorted({c["engine"] for c in CHECKS.values()})
m = {
 "version": 1,
 "setup_cmd": "cd /verif/harness && CARGO_NET_OFFLINE=true cargo build --release --offline && /verif/shim/build.sh",
 "hooks": {
  "guard": "--cfg surrealkv_verif",
  "enable": "rustflags = [\"--cfg\", \"surrealkv_verif\"] in /verif/harness/.cargo/config.toml; the harness has a path dependency on /repo, so every check rebuilds from /repo's working tree",
  "baseline_off_cmd": "cd /repo && (cargo nextest run --workspace --no-fail-fast --tool-config-file pb:/w/lib/nextest.toml --profile pb --test-threads 8 --offline || cargo test --workspace --no-fail-fast --offline)",
  "source_commits": HOOK_COMMITS,
  "add_only": True,
 },
 "engines": [{"name": e, "path": ENGINES[e][0], "serves_properties": [p for p in props if p in CHECKS and CHECKS[p]["engine"] == e], "kind_free_text": ENGINES[e][1]} for e in used],
 "checks": checks,
 "not_applicable": na,
 "notes": "Genuine defects found are listed in /verif/known_findings.json (fixed: entries name the fix: commits in /repo). See DESIGN.md.",
}
json.dump(m, open("/verif/MANIFEST.json", "w"), indent=1)
print("claimed", [c["property_id"] for c in checks], "hooks", HOOK_COMMITS)
